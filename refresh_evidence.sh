#!/bin/sh
# Re-runs the quick check of every claimed property against /repo and validates MANIFEST + evidence against the schemas.
cd /verif
rc=0
for p in $(python3 -c "import json; print(' '.join(c['property_id'] for c in json.load(open('/verif/MANIFEST.json'))['checks']))"); do
  out=$(/verif/bin/check $p quick 2>&1 | tail -1); echo "$out"
  case "$out" in *" 0 violations"*) ;; *) rc=1;; esac
done
python3-vt - <<'PY' || rc=1
import json,jsonschema,glob,sys
m=json.load(open('/verif/MANIFEST.json')); jsonschema.validate(m,json.load(open('/root/.vp/MANIFEST.schema.json')))
es=json.load(open('/root/.vp/EVIDENCE.schema.json'))
bad=0
for c in m['checks']:
    f=c['evidence_file']; d=json.load(open(f)); jsonschema.validate(d,es)
    cov=d['coverage']
    if cov['obligations']!=cov['discharged'] or d['violations']!=0:
        print('BAD evidence',f,cov['obligations'],cov['discharged'],d['violations']); bad=1
print('manifest+evidence', 'ok' if not bad else 'BAD')
sys.exit(bad)
PY
exit $rc
