#!/usr/bin/env python3
"""Must-fail / must-pass corpus for the VC generator.

Each mutant is an edit (file, old text, new text) applied to a scratch git worktree of /repo
(never to /repo itself); the check of the named property is run against the worktree with
VERIF_REPO and must report a violation whose obligation name contains 'expect' (must-fail) or
must pass (must-pass, expect == "").  Usage: run.py [prop ...] [-k substring]
"""
import json, os, subprocess, sys, tempfile, shutil, re

ROOT = "/verif"
def sh(cmd, **kw):
    return subprocess.run(cmd, shell=True, text=True, capture_output=True, **kw)

def main():
    args = [a for a in sys.argv[1:] if not a.startswith("-")]
    kfilter = None
    if "-k" in sys.argv:
        kfilter = sys.argv[sys.argv.index("-k") + 1]
        args = [a for a in args if a != kfilter]
    muts = json.load(open(os.path.join(ROOT, "selftest", "mutants.json")))
    import glob
    for f in sorted(glob.glob(os.path.join(ROOT, "selftest", "mutants.d", "*.json"))):
        muts += json.load(open(f))
    wt = tempfile.mkdtemp(prefix="vselftest-")
    os.rmdir(wt)
    r = sh(f"git -C /repo worktree add --detach {wt} HEAD")
    if r.returncode != 0:
        print(r.stderr); sys.exit(2)
    # contract files: use /repo's working-tree versions (they may be newer than HEAD)
    sh(f"cd /repo && find . -name 'verif_contracts*.go' | while read f; do mkdir -p {wt}/$(dirname $f); cp $f {wt}/$f; done")
    bad = 0
    try:
        for m in muts:
            if args and m["prop"] not in args: continue
            if kfilter and kfilter not in m["name"]: continue
            path = os.path.join(wt, m["file"])
            src = open(path).read()
            if src.count(m["old"]) != 1:
                print(f"SKIP {m['name']}: pattern occurs {src.count(m['old'])} times"); bad += 1; continue
            open(path, "w").write(src.replace(m["old"], m["new"]))
            env = dict(os.environ, VERIF_REPO=wt, VERIF_OUT=wt + "/.verif-out", VERIF_NORETRY="1")
            r = sh(f"{ROOT}/bin/check {m['prop']} quick", env=env)
            open(path, "w").write(src)
            viol = [l for l in r.stdout.splitlines() if l.startswith("VIOLATION")]
            if m.get("expect", "") == "":
                ok = r.returncode == 0 and not viol
            else:
                ok = r.returncode == 1 and any(re.sub(r'[^A-Za-z0-9.\-]', '_', m["expect"]) in v for v in viol)
            tag = "ok  " if ok else "FAIL"
            print(f"{tag} {m['prop']} {m['name']}: exit={r.returncode} " + ("; ".join(v.split('replay=')[1].split('/')[-1] for v in viol)[:300]))
            if not ok:
                bad += 1
                if os.environ.get("VERBOSE"): print(r.stdout[-2000:], r.stderr[-2000:])
    finally:
        sh(f"git -C /repo worktree remove --force {wt}")
        # evidence/replays written during selftest describe mutants, not /repo: restore by re-running is the caller's job
    print("selftest:", "PASS" if bad == 0 else f"{bad} problem(s)")
    sys.exit(1 if bad else 0)
main()
