# sourced by Makefile and bin/check: offline Go environment using the repository's own toolchain
GOMC="${GOMODCACHE:-/root/go/pkg/mod}"
export PATH="$GOMC/golang.org/toolchain@v0.0.1-go1.25.7.linux-amd64/bin:$PATH"
export GOTOOLCHAIN=local GOFLAGS=-mod=mod GOPROXY=off GOSUMDB=off GONOSUMDB='*' GONOSUMCHECK=1
