package tcp

import (
	"context"
	"net"
	"testing"

	ma "github.com/multiformats/go-multiaddr"
	manet "github.com/multiformats/go-multiaddr/net"
)

type vfWrapConn struct {
	net.Conn
	closed *bool
}

func (c *vfWrapConn) Close() error { *c.closed = true; return c.Conn.Close() }

type vfDialer struct{ closed *bool }

func (d *vfDialer) DialContext(ctx context.Context, network, address string) (net.Conn, error) {
	var nd net.Dialer
	c, err := nd.DialContext(ctx, network, address)
	if err != nil {
		return nil, err
	}
	return &vfWrapConn{Conn: c, closed: d.closed}, nil
}

func TestVerifReplayZZ(t *testing.T) {
	ln, err := net.Listen("tcp", "127.0.0.1:0")
	if err != nil {
		t.Skip(err)
	}
	defer ln.Close()
	go func() {
		for {
			c, err := ln.Accept()
			if err != nil {
				return
			}
			defer c.Close()
		}
	}()
	raddr, _ := manet.FromNetAddr(ln.Addr())
	closed := false
	tr, err := NewTCPTransport(nil, nil, nil, WithMetrics(), WithDialerForAddr(func(ma.Multiaddr) (ContextDialer, error) {
		return &vfDialer{closed: &closed}, nil
	}))
	if err != nil {
		t.Fatal(err)
	}
	_, err = tr.Dial(context.Background(), raddr, "p")
	t.Logf("VERIF-OUT err=%v closed=%v", err, closed)
	if err != nil && !closed {
		t.Errorf("newTracingConn failure exit: connection not closed")
	}
}
