package upgrader

import (
	"context"
	"net"
	"testing"

	ipnet "github.com/libp2p/go-libp2p/core/pnet"
	"github.com/libp2p/go-libp2p/core/network"
	ma "github.com/multiformats/go-multiaddr"
)

type vfConn struct {
	net.Conn
	closed bool
}

func (c *vfConn) Close() error                  { c.closed = true; return nil }
func (c *vfConn) LocalMultiaddr() ma.Multiaddr  { return nil }
func (c *vfConn) RemoteMultiaddr() ma.Multiaddr { return nil }

type vfScope struct {
	network.ConnManagementScope
	done bool
}

func (s *vfScope) Done() { s.done = true }

func TestVerifReplayZZ(t *testing.T) {
	// exit 1: outbound upgrade with an empty peer ID
	u := &upgrader{}
	c := &vfConn{}
	sc := &vfScope{}
	_, err := u.Upgrade(context.Background(), nil, c, network.DirOutbound, "", sc)
	t.Logf("VERIF-OUT nilpeer_err=%v closed=%v done=%v", err != nil, c.closed, sc.done)
	if err != nil && !c.closed {
		t.Errorf("ErrNilPeer exit: connection not closed")
	}
	// exit 2: private network forced, no PSK configured
	ipnet.ForcePrivateNetwork = true
	defer func() { ipnet.ForcePrivateNetwork = false }()
	c2 := &vfConn{}
	sc2 := &vfScope{}
	_, err = u.Upgrade(context.Background(), nil, c2, network.DirInbound, "", sc2)
	t.Logf("VERIF-OUT forcepnet_err=%v closed=%v done=%v", err != nil, c2.closed, sc2.done)
	if err != nil && !c2.closed {
		t.Errorf("ForcePrivateNetwork exit: connection not closed")
	}
}
