package connmgr

import (
	"testing"

	"github.com/libp2p/go-libp2p/core/network"
)

// Observation (outside C14's statement): ForceTrim documents "if after closing all unprotected connections we still
// have more than lowWaterMark connections, it'll close protected connections", but getConnsToCloseEmergency compares
// len(selected) with the already decremented target.
func TestC14ForceTrimResidualTarget(t *testing.T) {
	cm, err := NewConnManager(2, 100, WithGracePeriod(0))
	if err != nil {
		t.Fatal(err)
	}
	defer cm.Close()
	not := cm.Notifee()
	var unprot, prot []network.Conn
	for i := 0; i < 6; i++ {
		c := randConn(t, not.Disconnected)
		not.Connected(nil, c)
		unprot = append(unprot, c)
	}
	for i := 0; i < 6; i++ {
		c := randConn(t, not.Disconnected)
		not.Connected(nil, c)
		cm.Protect(c.RemotePeer(), "keep")
		prot = append(prot, c)
	}
	if got := cm.GetInfo().ConnCount; got != 12 {
		t.Fatalf("count %d", got)
	}
	cm.ForceTrim() // target = 12 - 2 = 10; 6 unprotected conns exist
	nu, np := 0, 0
	for _, c := range unprot {
		if c.(*tconn).isClosed() {
			nu++
		}
	}
	for _, c := range prot {
		if c.(*tconn).isClosed() {
			np++
		}
	}
	t.Logf("closed unprotected=%d protected=%d remaining=%d lowWater=2", nu, np, cm.GetInfo().ConnCount)
	if np > 0 && nu < len(unprot) {
		t.Fatalf("C14 violated: protected closed before all unprotected")
	}
}
