package pstoremem

// Reproduction for C09 obligation pstoremem.(*peerAddrs).Update/post#4@ret#0: an address whose TTL goes from the
// connected class to a finite class is never pushed into the expiry heap, so gc never collects it and the peer
// stays listed forever (run with go test -overlay; see run.sh).

import (
	"testing"
	"time"

	"github.com/libp2p/go-libp2p/core/peer"
	"github.com/libp2p/go-libp2p/core/peerstore"
	ma "github.com/multiformats/go-multiaddr"
)

type c09clock struct{ t time.Time }

func (c *c09clock) Now() time.Time { return c.t }

func TestC09UpdateRepro(t *testing.T) {
	clk := &c09clock{t: time.Unix(1000, 0)}
	ab := NewAddrBook(WithClock(clk))
	defer ab.Close()
	p := peer.ID("peer-1")
	a := ma.StringCast("/ip4/1.2.3.4/tcp/1")
	ab.SetAddrs(p, []ma.Multiaddr{a}, peerstore.ConnectedAddrTTL)
	ab.SetAddrs(p, []ma.Multiaddr{a}, time.Second) // connected -> finite TTL
	ea, _ := ab.addrs.FindAddr(p, a)
	t.Logf("after SetAddrs(ConnectedAddrTTL); SetAddrs(1s): heapIndex=%d connected=%v heapLen=%d", ea.heapIndex, ea.IsConnected(), len(ab.addrs.expiringHeap))
	clk.t = clk.t.Add(time.Hour)
	ab.gc()
	peers := ab.PeersWithAddrs()
	t.Logf("one hour later, after gc: Addrs=%v PeersWithAddrs=%v stored=%d", ab.Addrs(p), peers, len(ab.addrs.Addrs[p]))
	if len(peers) != 0 || len(ab.addrs.Addrs[p]) != 0 {
		t.Fatalf("C09 VIOLATION CONFIRMED: expired address not collected (heapIndex=%d, TTL=%v): peer still listed %v", ea.heapIndex, ea.TTL, peers)
	}
}
