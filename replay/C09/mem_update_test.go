package pstoremem
