package pstoreds
