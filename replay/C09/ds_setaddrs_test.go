package pstoreds

// End-to-end reproduction of the deleteInPlace defect through the public API: SetAddrs(p, [A, C], 0) on a peer with
// addresses A, B, C must leave exactly B; it leaves C.

import (
	"context"
	"testing"
	"time"

	ds "github.com/ipfs/go-datastore"
	dssync "github.com/ipfs/go-datastore/sync"
	"github.com/libp2p/go-libp2p/core/peer"
	ma "github.com/multiformats/go-multiaddr"
)

func TestC09SetAddrsZeroTTLRepro(t *testing.T) {
	opts := DefaultOpts()
	opts.GCPurgeInterval = 0
	ab, err := NewAddrBook(context.Background(), dssync.MutexWrap(ds.NewMapDatastore()), opts)
	if err != nil {
		t.Fatal(err)
	}
	defer ab.Close()
	p := peer.ID("peer-1")
	A := ma.StringCast("/ip4/1.1.1.1/tcp/1")
	B := ma.StringCast("/ip4/2.2.2.2/tcp/2")
	C := ma.StringCast("/ip4/3.3.3.3/tcp/3")
	ab.AddAddrs(p, []ma.Multiaddr{A, B, C}, time.Hour)
	ab.SetAddrs(p, []ma.Multiaddr{A, C}, 0)
	got := ab.Addrs(p)
	t.Logf("AddAddrs([A,B,C],1h); SetAddrs([A,C],0); Addrs = %v (expected [%s])", got, B)
	if len(got) != 1 || !got[0].Equal(B) {
		t.Fatalf("C09 VIOLATION CONFIRMED: SetAddrs with TTL 0 did not remove exactly the named addresses: %v", got)
	}
}
