#!/bin/sh
# C09 reproductions on the real code; nothing is written into /repo (go test -overlay).
. /verif/env.sh
D=/verif/replay/C09
cat > /tmp/c09-overlay.json <<J
{"Replace":{
 "/repo/p2p/host/peerstore/pstoreds/zz_c09_deleteinplace_test.go":"$D/ds_deleteinplace_test.go",
 "/repo/p2p/host/peerstore/pstoreds/zz_c09_setaddrs_test.go":"$D/ds_setaddrs_test.go",
 "/repo/p2p/host/peerstore/pstoremem/zz_c09_update_test.go":"$D/mem_update_test.go"
}}
J
cd /repo && go test -overlay /tmp/c09-overlay.json -vet=off -count=1 -timeout 120s -run 'TestC09' -v ./p2p/host/peerstore/pstoreds ./p2p/host/peerstore/pstoremem 2>&1 | grep -v "^=== RUN"
