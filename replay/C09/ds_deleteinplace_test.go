package pstoreds

// Reproduction for C09 obligation pstoreds.deleteInPlace/post#1 and post#2 (run with go test -overlay; see run.sh).

import (
	"testing"

	pb "github.com/libp2p/go-libp2p/p2p/host/peerstore/pstoreds/pb"
	ma "github.com/multiformats/go-multiaddr"
)

func TestC09DeleteInPlaceRepro(t *testing.T) {
	A := ma.StringCast("/ip4/1.1.1.1/tcp/1")
	B := ma.StringCast("/ip4/2.2.2.2/tcp/2")
	C := ma.StringCast("/ip4/3.3.3.3/tcp/3")
	s := []*pb.AddrBookRecord_AddrEntry{{Addr: A.Bytes()}, {Addr: B.Bytes()}, {Addr: C.Bytes()}}
	res := deleteInPlace(s, []ma.Multiaddr{A, C})
	var got []string
	for _, e := range res {
		m, _ := ma.NewMultiaddrBytes(e.Addr)
		got = append(got, m.String())
	}
	t.Logf("deleteInPlace([A,B,C],[A,C]) = %v (expected [%s])", got, B)
	if len(got) != 1 || got[0] != B.String() {
		t.Fatalf("C09 VIOLATION CONFIRMED: survivor B lost and/or deleted address kept: %v", got)
	}
}
