#!/bin/sh
# C05 reproductions on the real code; nothing is written into /repo (go test -overlay).
. /verif/env.sh
D=/verif/replay/C05
cat > /tmp/c05-overlay.json <<J
{"Replace":{
 "/repo/p2p/net/swarm/zz_c05_limiter_test.go":"$D/limiter_fd_overshoot_test.go"
}}
J
cd /repo && go test -overlay /tmp/c05-overlay.json -vet=off -count=1 -timeout 120s -run 'TestC05' -v ./p2p/net/swarm 2>&1 | grep -v "^=== RUN"
