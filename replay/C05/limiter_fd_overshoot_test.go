package swarm

import (
	"context"
	"sync"
	"sync/atomic"
	"testing"
	"time"

	"github.com/libp2p/go-libp2p/core/peer"
	"github.com/libp2p/go-libp2p/core/transport"

	ma "github.com/multiformats/go-multiaddr"
)

// C05 reproduction: dialLimiter lets fdLimit+1 FD-consuming dials run at the same time.
//
// freeFDToken() gives the FD token it just released to the first live job of waitingOnFd *without re-checking the
// limit*. If it first skips a cancelled job, freePeerToken(cancelled) resumes a job waiting on that peer's limit and
// addCheckFdLimit() hands the free FD token to it; the loop in freeFDToken then continues and increments fdConsuming
// for the next live waiter as well.
func TestC05LimiterFdOvershoot(t *testing.T) {
	const fdLimit = 1
	var inFlight, maxInFlight atomic.Int32
	release := make(chan struct{})
	var started sync.WaitGroup
	df := func(ctx context.Context, p peer.ID, a ma.Multiaddr, _ chan<- transport.DialUpdate) (transport.CapableConn, error) {
		n := inFlight.Add(1)
		for {
			m := maxInFlight.Load()
			if n <= m || maxInFlight.CompareAndSwap(m, n) {
				break
			}
		}
		started.Done()
		<-release
		inFlight.Add(-1)
		return nil, context.Canceled
	}
	dl := newDialLimiterWithParams(df, fdLimit, 1)
	resp := make(chan transport.DialUpdate, 16)
	tcp := func(s string) ma.Multiaddr { return ma.StringCast(s) }
	job := func(ctx context.Context, p peer.ID, a ma.Multiaddr) *dialJob {
		return &dialJob{ctx: ctx, peer: p, addr: a, resp: resp, timeout: time.Minute}
	}
	bg := context.Background()
	ctxB, cancelB := context.WithCancel(bg)

	started.Add(1)
	dl.AddDialJob(job(bg, "pA", tcp("/ip4/1.2.3.4/tcp/1"))) // A: takes the only FD token, blocks in the dial function
	started.Wait()
	dl.AddDialJob(job(ctxB, "pB", tcp("/ip4/1.2.3.4/tcp/2"))) // B: peer token for pB, waits for an FD token
	dl.AddDialJob(job(bg, "pB", tcp("/ip4/1.2.3.4/tcp/3")))   // C: waits for pB's peer token (limit 1)
	dl.AddDialJob(job(bg, "pD", tcp("/ip4/1.2.3.4/tcp/4")))   // D: peer token for pD, waits for an FD token
	cancelB()

	dl.lk.Lock()
	t.Logf("before: fdConsuming=%d fdLimit=%d waitingOnFd=%d waitingOnPeerLimit[pB]=%d", dl.fdConsuming, dl.fdLimit, len(dl.waitingOnFd), len(dl.waitingOnPeerLimit["pB"]))
	dl.lk.Unlock()

	started.Add(2)
	release <- struct{}{} // A finishes: finishedDial(A) -> freeFDToken -> skips B (freePeerToken(B) starts C) -> starts D
	done := make(chan struct{})
	go func() { started.Wait(); close(done) }()
	select {
	case <-done:
	case <-time.After(2 * time.Second):
	}
	dl.lk.Lock()
	fd := dl.fdConsuming
	dl.lk.Unlock()
	t.Logf("VERIF-OUT fdConsuming=%d fdLimit=%d maxConcurrentFdDials=%d", fd, fdLimit, maxInFlight.Load())
	close(release)
	if fd > fdLimit || int(maxInFlight.Load()) > fdLimit {
		t.Errorf("FD cap exceeded: fdConsuming=%d, %d FD-consuming dials ran concurrently, fdLimit=%d", fd, maxInFlight.Load(), fdLimit)
	}
}
