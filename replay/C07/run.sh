#!/bin/sh
# C07 finding on the real code (nothing is written into /repo: go test -overlay). Both tests FAILED before the fix commit
# 8f2a931 ("fix: blankhost: do not ignore the error of Stream.SetProtocol") and pass after it:
# BlankHost ignores the error of Stream.SetProtocol in NewStream (dialer) and in newStreamHandler (listener).
. /verif/env.sh
D=/verif/replay/C07
cat > /tmp/c07-overlay.json <<J
{"Replace":{"/repo/p2p/host/blank/zz_c07_setprotocol_test.go":"$D/blankhost_setprotocol_test.go"}}
J
cd /repo && go test -overlay /tmp/c07-overlay.json -vet=off -count=1 -timeout 120s -run 'TestC07' -v ./p2p/host/blank 2>&1 | grep -v "^=== RUN"
