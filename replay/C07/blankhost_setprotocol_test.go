package blankhost_test

// C07 reproduction on the real code (run through `go test -overlay`, nothing is written into /repo).
//
// Before fix commit 8f2a931 BlankHost ignored the error of Stream.SetProtocol on both sides of a negotiation (both tests
// failed then and pass now):
//   - dialer: NewStream returns (stream, nil) although the resource manager refused to attach the stream to the
//     negotiated protocol's scope; the stream reports Protocol() == "" and is not charged to the protocol scope;
//   - listener: newStreamHandler runs the application handler on such a stream (protocol stream limit not enforced).
// BasicHost resets the stream in both situations (StreamResourceLimitExceeded).
// Failing obligations: blankhost.(*BlankHost).NewStream/post#2@ret#2 and
// blankhost.(*BlankHost).newStreamHandler/callsite handle#0.4.

import (
	"context"
	"testing"
	"time"

	"github.com/libp2p/go-libp2p/core/network"
	"github.com/libp2p/go-libp2p/core/peer"
	"github.com/libp2p/go-libp2p/core/protocol"
	blankhost "github.com/libp2p/go-libp2p/p2p/host/blank"
	rcmgr "github.com/libp2p/go-libp2p/p2p/host/resource-manager"
	"github.com/libp2p/go-libp2p/p2p/net/swarm"
	swarmt "github.com/libp2p/go-libp2p/p2p/net/swarm/testing"
)

const c07Proto = protocol.ID("/c07/test/1.0.0")

// a resource manager whose limit for c07Proto is zero streams: every SetProtocol(c07Proto) is refused
func c07Rcmgr(t *testing.T) network.ResourceManager {
	limits := rcmgr.PartialLimitConfig{
		Protocol: map[protocol.ID]rcmgr.ResourceLimits{
			c07Proto: {Streams: rcmgr.BlockAllLimit, StreamsInbound: rcmgr.BlockAllLimit, StreamsOutbound: rcmgr.BlockAllLimit},
		},
	}
	mgr, err := rcmgr.NewResourceManager(rcmgr.NewFixedLimiter(limits.Build(rcmgr.InfiniteLimits)))
	if err != nil {
		t.Fatal(err)
	}
	t.Cleanup(func() { mgr.Close() })
	return mgr
}

func TestC07BlankHostDialerIgnoresSetProtocolError(t *testing.T) {
	dialer := blankhost.NewBlankHost(swarmt.GenSwarm(t, swarmt.OptDisableQUIC, swarmt.WithSwarmOpts(swarm.WithResourceManager(c07Rcmgr(t)))))
	listener := blankhost.NewBlankHost(swarmt.GenSwarm(t, swarmt.OptDisableQUIC))
	defer dialer.Close()
	defer listener.Close()
	listener.SetStreamHandler(c07Proto, func(s network.Stream) { s.Close() })

	ctx, cancel := context.WithTimeout(context.Background(), 10*time.Second)
	defer cancel()
	if err := dialer.Connect(ctx, peer.AddrInfo{ID: listener.ID(), Addrs: listener.Addrs()}); err != nil {
		t.Fatal(err)
	}
	s, err := dialer.NewStream(ctx, listener.ID(), c07Proto)
	if err != nil {
		t.Logf("NewStream failed as the property demands: %v", err)
		return
	}
	defer s.Reset()
	// the direct call shows the refusal that NewStream swallowed
	t.Logf("NewStream returned a stream; Protocol() = %q; SetProtocol again -> %v", s.Protocol(), s.SetProtocol(c07Proto))
	if s.Protocol() != c07Proto {
		t.Fatalf("C07 violated: NewStream succeeded for [%s] but the stream is bound to %q (SetProtocol error ignored, stream not charged to the protocol scope)", c07Proto, s.Protocol())
	}
}

func TestC07BlankHostListenerRunsHandlerAfterSetProtocolError(t *testing.T) {
	dialer := blankhost.NewBlankHost(swarmt.GenSwarm(t, swarmt.OptDisableQUIC))
	listener := blankhost.NewBlankHost(swarmt.GenSwarm(t, swarmt.OptDisableQUIC, swarmt.WithSwarmOpts(swarm.WithResourceManager(c07Rcmgr(t)))))
	defer dialer.Close()
	defer listener.Close()
	ran := make(chan protocol.ID, 1)
	listener.SetStreamHandler(c07Proto, func(s network.Stream) { ran <- s.Protocol(); s.Close() })

	ctx, cancel := context.WithTimeout(context.Background(), 10*time.Second)
	defer cancel()
	if err := dialer.Connect(ctx, peer.AddrInfo{ID: listener.ID(), Addrs: listener.Addrs()}); err != nil {
		t.Fatal(err)
	}
	s, err := dialer.NewStream(ctx, listener.ID(), c07Proto)
	if err == nil {
		defer s.Reset()
	}
	select {
	case got := <-ran:
		t.Fatalf("C07 violated: the listener's resource manager allows 0 streams of %s, yet the application handler ran (stream reports protocol %q)", c07Proto, got)
	case <-time.After(2 * time.Second):
		t.Log("handler did not run, as the property demands")
	}
}
