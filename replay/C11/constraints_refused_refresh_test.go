package relay

import (
	"testing"
	"time"

	"github.com/libp2p/go-libp2p/core/peer"
	ma "github.com/multiformats/go-multiaddr"
)

// C11 finding: a refused reservation refresh makes the relay forget the peer in its cap accounting although the
// peer's earlier reservation stays valid (handleReserve does not touch r.rsvp[p] on refusal), so afterwards more
// reservations than MaxReservations can be alive.
func TestC11RefusedRefreshForgetsPeer(t *testing.T) {
	rc := &Resources{MaxReservations: 2, MaxReservationsPerIP: 1, MaxReservationsPerASN: 8}
	c := newConstraints(rc)
	exp := time.Now().Add(time.Hour)
	A, B, C := peer.ID("peerA"), peer.ID("peerB"), peer.ID("peerC")
	ip1 := ma.StringCast("/ip4/1.1.1.1/tcp/1")
	ip2 := ma.StringCast("/ip4/2.2.2.2/tcp/1")
	ip3 := ma.StringCast("/ip4/3.3.3.3/tcp/1")
	if err := c.Reserve(A, ip1, exp); err != nil {
		t.Fatal(err)
	}
	if err := c.Reserve(B, ip2, exp); err != nil {
		t.Fatal(err)
	}
	// total cap reached: a third peer is refused
	if err := c.Reserve(C, ip3, exp); err == nil {
		t.Fatal("expected the total cap to refuse C")
	}
	// A refreshes over a connection from B's IP: refused by the per-IP cap ...
	err := c.Reserve(A, ip2, exp)
	t.Logf("VERIF-OUT refresh_refused=%v total_after=%d", err != nil, len(c.total))
	if err == nil {
		t.Fatal("expected the per-IP cap to refuse the refresh")
	}
	// ... but A's accounting entry is gone although its reservation was not withdrawn (handleReserve keeps r.rsvp[A])
	found := false
	for _, e := range c.total {
		if e.Peer == A {
			found = true
		}
	}
	// and the freed slot is handed to C: A (still reserved at the relay), B and C are alive with MaxReservations = 2
	errC := c.Reserve(C, ip3, exp)
	t.Logf("VERIF-OUT peerA_still_accounted=%v thirdPeerAccepted=%v", found, errC == nil)
	if !found || errC == nil {
		t.Errorf("C11 violated: refused refresh dropped the peer from the cap accounting (accounted=%v) and a reservation beyond the total cap was granted (%v)", found, errC == nil)
	}
}
