#!/bin/sh
# C11 open finding on the real code (nothing is written into /repo: go test -overlay). FAILS on the unchanged tree.
. /verif/env.sh
D=/verif/replay/C11
cat > /tmp/c11-overlay.json <<J
{"Replace":{"/repo/p2p/protocol/circuitv2/relay/zz_c11_refresh_test.go":"$D/constraints_refused_refresh_test.go"}}
J
cd /repo && go test -overlay /tmp/c11-overlay.json -vet=off -count=1 -timeout 120s -run 'TestC11RefusedRefresh' -v ./p2p/protocol/circuitv2/relay 2>&1 | grep -v "^=== RUN"
