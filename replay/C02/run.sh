#!/bin/sh
# C02 observation on the real code (nothing is written into /repo: go test -overlay).
# pskConn.Write advances the keystream by len(in) even when the underlying connection accepted fewer bytes; a caller that
# continues after the partial write makes the remote reader receive modified bytes. The test FAILS on the unchanged tree.
. /verif/env.sh
D=/verif/replay/C02
cat > /tmp/c02-overlay.json <<J
{"Replace":{"/repo/p2p/net/pnet/zz_c02_shortwrite_test.go":"$D/psk_shortwrite_test.go"}}
J
cd /repo && go test -overlay /tmp/c02-overlay.json -vet=off -count=1 -timeout 120s -run 'TestC02ShortWriteDesync' -v ./p2p/net/pnet 2>&1 | grep -v "^=== RUN"
