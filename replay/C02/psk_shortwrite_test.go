package pnet

import (
	"bytes"
	"io"
	"net"
	"os"
	"testing"
)

// underlying connection that accepts only half of the first data write and reports a (temporary) timeout,
// as a TCP connection with a write deadline may do; later writes succeed.
type c02ShortWriteConn struct {
	net.Conn
	wire  bytes.Buffer
	fired bool
}

func (c *c02ShortWriteConn) Write(p []byte) (int, error) {
	if !c.fired && len(p) > 24 {
		c.fired = true
		n := len(p) / 2
		c.wire.Write(p[:n])
		return n, os.ErrDeadlineExceeded
	}
	return c.wire.Write(p)
}
func (c *c02ShortWriteConn) Read(p []byte) (int, error) { return c.wire.Read(p) }

func TestC02ShortWriteDesync(t *testing.T) {
	var psk [32]byte
	for i := range psk {
		psk[i] = byte(i)
	}
	under := &c02ShortWriteConn{}
	w, _ := newPSKConn(&psk, under)
	r, _ := newPSKConn(&psk, under)
	msg := make([]byte, 64)
	for i := range msg {
		msg[i] = byte(100 + i)
	}
	n, err := w.Write(msg)
	t.Logf("first write: n=%d err=%v", n, err)
	if err == nil || n == len(msg) {
		t.Fatal("stub did not produce a short write")
	}
	// io.Writer semantics: n bytes were accepted; the caller continues with the rest after the timeout
	if _, err := w.Write(msg[n:]); err != nil {
		t.Fatal(err)
	}
	got := make([]byte, len(msg))
	if _, err := io.ReadFull(r, got); err != nil {
		t.Fatal(err)
	}
	if !bytes.Equal(got, msg) {
		t.Fatalf("remote reader received modified bytes after short write + continue:\n sent %v\n got  %v", msg, got)
	}
}
