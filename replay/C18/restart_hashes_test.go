package libp2pwebtransport

// C18: "an address learned at any time keeps verifying through the current and the following certificate period",
// also across "every restart at an arbitrary later instant". A dialer completes the connection only if the server
// confirms EVERY certificate hash of the dialed address (transport.upgrade), so the hashes the listener confirms
// (certManager.SerializedCertHashes) must include the previous period's certificate: an address learned in period
// k-1 carries the hashes of certificates k-1 and k and is dialed during period k.

import (
	"crypto/rand"
	"testing"
	"time"

	"github.com/benbjohnson/clock"
	ic "github.com/libp2p/go-libp2p/core/crypto"
	ma "github.com/multiformats/go-multiaddr"
	"github.com/multiformats/go-multibase"
	"github.com/multiformats/go-multihash"
	"github.com/stretchr/testify/require"
)

func TestC18RestartKeepsConfirmingPreviousPeriodHash(t *testing.T) {
	priv, _, err := ic.GenerateEd25519Key(rand.Reader)
	require.NoError(t, err)

	cl := clock.NewMock()
	cl.Set(time.Date(2026, 1, 1, 12, 0, 0, 0, time.UTC))

	// the process that handed out the address
	m1, err := newCertManager(priv, cl)
	require.NoError(t, err)
	learned := m1.AddrComponent() // /certhash/H(current)/certhash/H(next)
	nextStart := m1.nextConfig.Start()
	require.NoError(t, m1.Close())

	// the process is restarted during the following certificate period
	cl.Set(nextStart.Add(clockSkewAllowance + time.Hour))
	m2, err := newCertManager(priv, cl)
	require.NoError(t, err)
	defer m2.Close()

	confirmed := map[string]bool{}
	for _, h := range m2.SerializedCertHashes() {
		confirmed[string(h)] = true
	}
	// what transport.upgrade demands: every hash of the dialed address is confirmed by the server
	ma.ForEach(learned, func(c ma.Component) bool {
		if c.Protocol().Code != ma.P_CERTHASH {
			return true
		}
		_, data, err := multibase.Decode(c.Value())
		require.NoError(t, err)
		_, err = multihash.Decode(data)
		require.NoError(t, err)
		require.True(t, confirmed[string(data)], "a certificate hash of an address learned in the previous period is not confirmed after a restart: the dial fails with 'missing cert hash'")
		return true
	})
}
