#!/bin/sh
# C18 finding (fixed): after a restart the listener did not confirm the previous period's certificate hash.
# Runs the reproduction against /repo through go test -overlay (nothing is written into /repo).
# FAILED before the fix commit, passes after it.
. /verif/env.sh
D=/verif/replay/C18
O=$(mktemp)
cat > $O <<J
{"Replace":{"/repo/p2p/transport/webtransport/zz_c18_restart_test.go":"$D/restart_hashes_test.go"}}
J
cd /repo && go test -overlay $O -vet=off -count=1 -timeout 120s -run 'TestC18RestartKeepsConfirmingPreviousPeriodHash' -v ./p2p/transport/webtransport 2>&1 | grep -v "^=== RUN"
rm -f $O
