#!/usr/bin/env python3
"""Refreshes the numeric columns (functions, obligations, mutants) of the table in DESIGN.md section 9.2 from
/verif/evidence/*.json and the self-test corpus."""
import json, glob, re
muts = json.load(open('/verif/selftest/mutants.json'))
for f in sorted(glob.glob('/verif/selftest/mutants.d/*.json')):
    muts += json.load(open(f))
cnt = {}
for m in muts:
    c = cnt.setdefault(m['prop'], [0, 0])
    c[0 if m.get('expect', '') != '' else 1] += 1
lines = open('/verif/DESIGN.md').read().split('\n')
for i, l in enumerate(lines):
    m = re.match(r'^\| (C\d\d) \| claimed \|', l)
    if not m:
        continue
    p = m.group(1)
    try:
        ev = json.load(open(f'/verif/evidence/{p}.json'))
    except FileNotFoundError:
        continue
    cells = l.split('|')
    cells[4] = f" {len(ev['coverage']['functions_under_contract'])} "
    cells[5] = f" {ev['coverage']['obligations']} "
    a, b = cnt.get(p, [0, 0])
    cells[6] = f" {a}/{b} "
    lines[i] = '|'.join(cells)
open('/verif/DESIGN.md', 'w').write('\n'.join(lines))
