package main

// Global generator context: loaded packages, spec files, naming of heap fields,
// string literal ids, type ids.

import (
	"fmt"
	"go/ast"
	"go/token"
	"go/types"
	"os"
	"path/filepath"
	"sort"
	"strings"

	"golang.org/x/tools/go/packages"
)

type funcInfo struct {
	pkg  *packages.Package
	decl *ast.FuncDecl
	obj  *types.Func
}

type Gen struct {
	fset      *token.FileSet
	pkgs      map[string]*packages.Package
	funcs     map[*types.Func]*funcInfo
	specs     map[string]*SpecFile // by package path
	externs   map[string]*ExternSpec
	globalFns map[string]*SpecFn // spec fns from extern files (visible everywhere)
	globalPreds map[string]*PredDef
	strLits   map[string]int
	typeIDs   map[string]int
	ghost     map[string]string // ghost field -> value sort
	specFiles []string
	renames   map[*funcInfo]map[string][]string // pure renames of locals/parameters since the lock was taken: old name -> current names
}

// localsTable lists, in source order, every variable declared in the function (receiver, parameters, results, locals,
// including those of function literals) as "name:type". Recorded in the lock file on the unchanged tree; if the current
// table differs from the recorded one only in names (same length, same types position by position) the edit was a pure
// rename, and contract clauses that still use the old names are rebound to the new ones instead of raising an alarm.
func localsTable(fi *funcInfo) []string {
	info := fi.pkg.TypesInfo
	qual := func(p *types.Package) string { return p.Name() }
	var out []string
	ast.Inspect(fi.decl, func(n ast.Node) bool {
		id, ok := n.(*ast.Ident)
		if !ok || id.Name == "_" {
			return true
		}
		if v, ok := info.Defs[id].(*types.Var); ok && !v.IsField() {
			out = append(out, id.Name+":"+types.TypeString(v.Type(), qual))
		}
		return true
	})
	return out
}

// renameMap compares a recorded locals table with the current one; nil unless the difference is a pure rename.
func renameMap(old, cur []string) map[string][]string {
	if len(old) != len(cur) {
		return nil
	}
	curNames := map[string]bool{}
	for _, c := range cur {
		curNames[c[:strings.Index(c, ":")]] = true
	}
	m := map[string][]string{}
	for i := range old {
		oi, ci := strings.Index(old[i], ":"), strings.Index(cur[i], ":")
		if old[i][oi:] != cur[i][ci:] {
			return nil
		}
		on, cn := old[i][:oi], cur[i][:ci]
		if on != cn {
			dup := false
			for _, x := range m[on] {
				dup = dup || x == cn
			}
			if !dup {
				m[on] = append(m[on], cn)
			}
		}
	}
	if len(m) == 0 {
		return nil
	}
	return m
}

const modPath = "github.com/libp2p/go-libp2p"

func loadGen(repo string, patterns []string, specDir string, prop string) (*Gen, error) {
	cfg := &packages.Config{
		Mode: packages.NeedName | packages.NeedFiles | packages.NeedSyntax | packages.NeedTypes |
			packages.NeedTypesInfo | packages.NeedImports | packages.NeedDeps | packages.NeedModule,
		Dir: repo,
		Env: append(os.Environ(), "GOFLAGS=-mod=mod", "GOPROXY=off", "GOSUMDB=off", "GOTOOLCHAIN=local"),
	}
	pkgs, err := packages.Load(cfg, patterns...)
	if err != nil {
		return nil, err
	}
	g := &Gen{pkgs: map[string]*packages.Package{}, funcs: map[*types.Func]*funcInfo{}, specs: map[string]*SpecFile{},
		externs: map[string]*ExternSpec{}, strLits: map[string]int{"": 0}, typeIDs: map[string]int{}, ghost: map[string]string{},
		globalFns: map[string]*SpecFn{}, globalPreds: map[string]*PredDef{}}
	var errs []string
	packages.Visit(pkgs, nil, func(p *packages.Package) {
		g.pkgs[p.PkgPath] = p
		if g.fset == nil {
			g.fset = p.Fset
		}
		if strings.HasPrefix(p.PkgPath, modPath) {
			for _, e := range p.Errors {
				errs = append(errs, e.Error())
			}
		}
		if p.TypesInfo == nil {
			return
		}
		for _, f := range p.Syntax {
			for _, d := range f.Decls {
				fd, ok := d.(*ast.FuncDecl)
				if !ok || fd.Body == nil {
					continue
				}
				if obj, ok := p.TypesInfo.Defs[fd.Name].(*types.Func); ok {
					g.funcs[obj] = &funcInfo{pkg: p, decl: fd, obj: obj}
				}
			}
		}
	})
	if len(errs) > 0 {
		return nil, fmt.Errorf("package errors: %s", strings.Join(errs, "; "))
	}
	// extern spec files
	files, _ := filepath.Glob(filepath.Join(specDir, "*.spec"))
	sort.Strings(files)
	for _, f := range files {
		sf, err := parseSpecFile(f, "")
		if err != nil {
			return nil, err
		}
		for k, v := range sf.Externs {
			g.externs[k] = v
		}
		for k, v := range sf.Fns {
			g.globalFns[k] = v
		}
		for k, v := range sf.Preds {
			g.globalPreds[k] = v
		}
		for _, gh := range sf.Ghosts {
			g.ghost[gh[0]] = map[string]string{"int": SInt, "bool": SBool}[gh[1]]
		}
		g.specFiles = append(g.specFiles, f)
	}
	// contract files in loaded module packages
	for path, p := range g.pkgs {
		if !strings.HasPrefix(path, modPath) || len(p.GoFiles) == 0 {
			continue
		}
		dir := filepath.Dir(p.GoFiles[0])
		cfs, _ := filepath.Glob(filepath.Join(dir, "verif_contracts*.go"))
		sort.Strings(cfs)
		for _, cf := range cfs {
			sf, err := parseSpecFile(cf, path)
			if err != nil {
				// a broken contract file of another property must not take this property down
				if txt, rerr := os.ReadFile(cf); rerr == nil && prop != "" && !strings.Contains(string(txt), prop) {
					fmt.Fprintf(os.Stderr, "warning: ignoring %s (does not concern %s): %v\n", cf, prop, err)
					continue
				}
				return nil, err
			}
			if prev := g.specs[path]; prev != nil {
				if err := mergeSpecFiles(prev, sf); err != nil {
					return nil, err
				}
			} else {
				g.specs[path] = sf
			}
			for k, v := range sf.Externs {
				g.externs[k] = v
			}
			g.specFiles = append(g.specFiles, cf)
		}
	}
	return g, nil
}

func (g *Gen) strID(s string) int {
	if id, ok := g.strLits[s]; ok {
		return id
	}
	id := len(g.strLits) + 1000 // keep away from small ints
	g.strLits[s] = id
	return id
}

func (g *Gen) typeID(t types.Type) int {
	k := types.TypeString(t, nil)
	if id, ok := g.typeIDs[k]; ok {
		return id
	}
	id := len(g.typeIDs) + 1
	g.typeIDs[k] = id
	return id
}

// funcKey is the contract key of a function object: "Name", "(*T).Name", "(T).Name".
func funcKey(fn *types.Func) string {
	sig := fn.Type().(*types.Signature)
	if sig.Recv() == nil {
		return fn.Name()
	}
	rt := sig.Recv().Type()
	ptr := false
	if p, ok := rt.(*types.Pointer); ok {
		ptr = true
		rt = p.Elem()
	}
	name := "?"
	if n, ok := rt.(*types.Named); ok {
		name = n.Obj().Name()
	} else if a, ok := rt.(*types.Alias); ok {
		name = a.Obj().Name()
	}
	if ptr {
		return "(*" + name + ")." + fn.Name()
	}
	return "(" + name + ")." + fn.Name()
}

// externKeys returns candidate keys under which an extern spec for fn may be filed.
func externKeys(fn *types.Func, recvT types.Type) []string {
	pkgPath, pkgName := "", ""
	if fn.Pkg() != nil {
		pkgPath, pkgName = fn.Pkg().Path(), fn.Pkg().Name()
	}
	sig := fn.Type().(*types.Signature)
	var keys []string
	add := func(tn string) {
		if tn == "" {
			keys = append(keys, pkgPath+"."+fn.Name(), pkgName+"."+fn.Name())
		} else {
			keys = append(keys, pkgPath+"."+tn+"."+fn.Name(), pkgName+"."+tn+"."+fn.Name())
		}
	}
	if sig.Recv() == nil {
		add("")
		return keys
	}
	tn := func(t types.Type) string {
		if p, ok := t.(*types.Pointer); ok {
			t = p.Elem()
		}
		switch n := t.(type) {
		case *types.Named:
			return n.Obj().Name()
		case *types.Alias:
			return n.Obj().Name()
		}
		return ""
	}
	if recvT != nil {
		if n := tn(recvT); n != "" {
			// the static receiver type may live in another package than the method (embedded interfaces)
			t := recvT
			if p, ok := t.(*types.Pointer); ok {
				t = p.Elem()
			}
			if nn, ok := t.(*types.Named); ok && nn.Obj().Pkg() != nil {
				keys = append(keys, nn.Obj().Pkg().Path()+"."+n+"."+fn.Name(), nn.Obj().Pkg().Name()+"."+n+"."+fn.Name())
			}
		}
	}
	if n := tn(sig.Recv().Type()); n != "" {
		add(n)
	}
	return keys
}

func (g *Gen) lookupExtern(fn *types.Func, recvT types.Type) *ExternSpec {
	for _, k := range externKeys(fn, recvT) {
		if es, ok := g.externs[k]; ok {
			return es
		}
	}
	return nil
}

func (g *Gen) contractFor(fn *types.Func) *Contract {
	if fn.Pkg() == nil {
		return nil
	}
	sf := g.specs[fn.Pkg().Path()]
	if sf == nil {
		return nil
	}
	return sf.Contracts[funcKey(fn.Origin())]
}

// isLogCall: calls that are dropped (A-LOG).
func isLogCall(fn *types.Func, call *ast.CallExpr) bool {
	if fn != nil && fn.Pkg() != nil {
		p := fn.Pkg().Path()
		if p == "log/slog" || strings.HasSuffix(p, "/gologshim") || p == "log" || strings.Contains(p, "go-log") || strings.Contains(p, "canonicallog") ||
			p == "go.uber.org/zap" {
			return true
		}
	}
	if sel, ok := call.Fun.(*ast.SelectorExpr); ok {
		name := ""
		switch x := sel.X.(type) {
		case *ast.Ident:
			name = x.Name
		case *ast.SelectorExpr:
			name = x.Sel.Name
		}
		switch name {
		case "log", "logger", "trace", "metrics", "metricsTracer", "mt", "tracer":
			return true
		}
	}
	return false
}

// mergeSpecFiles adds the declarations of b to a (several contract files of one package).
func mergeSpecFiles(a, b *SpecFile) error {
	for k, v := range b.Contracts {
		if _, dup := a.Contracts[k]; dup {
			return fmt.Errorf("%s:%d: function %s has a contract in two files of the package", v.File, v.Line, k)
		}
		a.Contracts[k] = v
	}
	a.Order = append(a.Order, b.Order...)
	for k, v := range b.Preds {
		if _, dup := a.Preds[k]; dup {
			return fmt.Errorf("%s: predicate %s defined twice in the package", v.Body.File, k)
		}
		a.Preds[k] = v
	}
	for k, v := range b.Fns {
		if _, dup := a.Fns[k]; dup {
			return fmt.Errorf("spec fn %s defined twice in the package", k)
		}
		a.Fns[k] = v
	}
	for k, v := range b.Lemmas {
		a.Lemmas[k] = v
	}
	for k, v := range b.Consts {
		a.Consts[k] = v
	}
	a.Ghosts = append(a.Ghosts, b.Ghosts...)
	for k, v := range b.LockInvs {
		if a.LockInvs == nil {
			a.LockInvs = map[string]*PredDef{}
		}
		a.LockInvs[k] = v
	}
	return nil
}
