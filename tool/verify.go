package main

// Per-function verification: entry state, postconditions, frames, modular calls.

import (
	"fmt"
	"os"
	"go/ast"
	"go/token"
	"go/types"
	"sort"
	"strings"

	"golang.org/x/tools/go/packages"
)

func sortKeys(ks []interface{}) {
	sort.Slice(ks, func(i, j int) bool { return keyString(ks[i]) < keyString(ks[j]) })
}
func sortStrings(s []string) { sort.Strings(s) }

func newExec(g *Gen, pkg *packages.Package) *Exec {
	e := &Exec{g: g, pkg: pkg, declared: map[string]string{}, heapInit: map[string]string{}, heapSort: map[string]string{},
		warns: map[string]int{}, trusted: map[string]bool{}, inlining: map[*types.Func]int{},
		retOrd: map[*ast.ReturnStmt]int{}, loopOrd: map[ast.Stmt]int{}, callOrd: map[*ast.CallExpr]siteID{}, litOrd: map[*ast.FuncLit]int{},
		lemmasUsed: map[string]bool{}, fnsUsed: map[string]bool{}}
	e.st = &State{pc: tTrue, vars: map[interface{}]Val{}, heap: map[string]string{}, alloc: "alloc0"}
	e.declare("alloc0", SInt)
	e.addFact(sx(">=", "alloc0", "0"))
	return e
}

func callSimpleName(c *ast.CallExpr) string {
	switch f := ast.Unparen(c.Fun).(type) {
	case *ast.Ident:
		return f.Name
	case *ast.SelectorExpr:
		return f.Sel.Name
	case *ast.IndexExpr:
		return callSimpleName(&ast.CallExpr{Fun: f.X})
	case *ast.FuncLit:
		return "$lit"
	}
	return "$dyn"
}

// computeOrdinals numbers return statements, loops, function literals and call sites in source order.
func (e *Exec) computeOrdinals(body *ast.BlockStmt, info *types.Info) {
	perName := map[string]int{}
	nLoop, nLit := 0, 0
	var walk func(n ast.Node, inLit int) bool
	var visit func(n ast.Node, depth int)
	_ = walk
	visit = func(root ast.Node, depth int) {
		ast.Inspect(root, func(n ast.Node) bool {
			switch x := n.(type) {
			case *ast.FuncLit:
				if x == root {
					return true
				}
				e.litOrd[x] = nLit
				nLit++
				visit(x, depth+1)
				return false
			case *ast.ReturnStmt:
				if depth == 0 {
					e.retOrd[x] = e.nRet
					e.nRet++
				}
			case *ast.ForStmt:
				e.loopOrd[x] = nLoop
				nLoop++
			case *ast.RangeStmt:
				e.loopOrd[x] = nLoop
				nLoop++
			case *ast.CallExpr:
				if tv, ok := info.Types[x.Fun]; ok && tv.IsType() {
					return true
				}
				name := callSimpleName(x)
				if id, ok := ast.Unparen(x.Fun).(*ast.Ident); ok {
					if _, isB := info.ObjectOf(id).(*types.Builtin); isB {
						return true
					}
					// a call through a function-valued local or parameter that was only renamed since the lock was
					// taken keeps its recorded site name (`callsite next#0` stays bound)
					if _, isVar := info.ObjectOf(id).(*types.Var); isVar && e.fi != nil && e.g.renames != nil {
						for old, curs := range e.g.renames[e.fi] {
							for _, c := range curs {
								if c == name && len(curs) == 1 {
									name = old
								}
							}
						}
					}
				}
				s := siteID{name, perName[name]}
				perName[name]++
				e.callOrd[x] = s
				e.sites = append(e.sites, s)
			}
			return true
		})
	}
	visit(body, 0)
	e.fallOff = e.nRet
}

func (e *Exec) topEnv(cur *State) *SpecEnv {
	fr := e.frames[0]
	env := &SpecEnv{cur: cur, old: e.old, names: map[string]boundVar{}, pkg: e.fi.pkg, sf: e.sf,
		scopePos: fr.scopePos, entry: fr.entry, entryT: fr.entryT}
	// range index ghosts of loops that have run: $i<k> visible as idx<k> (value when the loop was left)
	if cur != nil {
		for k, v := range cur.vars {
			if ks, ok := k.(string); ok && strings.HasPrefix(ks, "$i") {
				env.names["idx"+ks[2:]] = boundVar{v, tInt}
			}
		}
		// range loops that have not run on this path: index 0
		for st, k := range e.loopOrd {
			if _, isRange := st.(*ast.RangeStmt); isRange {
				n := fmt.Sprintf("idx%d", k)
				if _, ok := env.names[n]; !ok {
					env.names[n] = boundVar{iv("0"), tInt}
				}
			}
		}
	}
	return env
}

func (e *Exec) loopEnv() *SpecEnv {
	env := e.topEnv(e.st)
	if e.curPos != 0 {
		env.scopePos = e.curPos
	}
	// range index ghosts: $i<k> visible as idx<k>
	for k, v := range e.st.vars {
		if ks, ok := k.(string); ok && strings.HasPrefix(ks, "$i") {
			env.names["idx"+ks[2:]] = boundVar{v, tInt}
		}
		if ks, ok := k.(string); ok && strings.HasPrefix(ks, "$visited") {
			env.names["visited"+ks[8:]] = boundVar{v, nil}
		}
	}
	return env
}

// verifyFunc generates all obligations of one function under contract. With lit != nil the "function" is
// the function literal lit inside fi (a closure with its own contract): its free variables are inputs.
func verifyFunc(g *Gen, fi *funcInfo, ct *Contract, lit *ast.FuncLit, parentCt *Contract) *Exec {
	e := newExec(g, fi.pkg)
	e.fi = fi
	e.contract = ct
	e.parentContract = parentCt
	e.sf = g.specs[fi.pkg.PkgPath]
	e.fnName = fi.pkg.Types.Name() + "." + ct.Key
	e.wrap = ct.Arith == "wrap"
	info := fi.pkg.TypesInfo
	sig := fi.obj.Type().(*types.Signature)
	body := fi.decl.Body
	ftype := fi.decl.Type
	if lit != nil {
		body = lit.Body
		ftype = lit.Type
		sig, _ = info.Types[lit].Type.(*types.Signature)
	}
	e.computeOrdinals(body, info)
	if lit != nil {
		// function literals nested in this literal keep their function-level ordinals (pre-order: they follow it
		// directly), so `closure k` contracts and closure(k) mean the same thing here as in the enclosing function
		for k := 0; ; k++ {
			l := nthFuncLit(fi, k)
			if l == nil {
				break
			}
			if l == lit {
				for x, v := range e.litOrd {
					e.litOrd[x] = v + k + 1
				}
				break
			}
		}
	}
	fr := &Frame{fn: fi.obj, sig: sig, top: true, pkg: fi.pkg, body: body, entry: map[string]Val{}, entryT: map[string]types.Type{}, scopePos: body.Lbrace + 1}
	e.frames = []*Frame{fr}
	// receiver
	if fi.decl.Recv != nil && len(fi.decl.Recv.List) > 0 && len(fi.decl.Recv.List[0].Names) > 0 {
		id := fi.decl.Recv.List[0].Names[0]
		if obj := info.Defs[id]; obj != nil {
			v := e.havocVal(id.Name, obj.Type())
			if sv, ok := v.(SV); ok && kindOf(obj.Type()) == kRef {
				e.addFact(mkNot(mkEq(sv.T, "0"))) // methods are verified for non-nil receivers
			}
			e.st.vars[obj] = v
			fr.entry[id.Name] = v
			fr.entryT[id.Name] = obj.Type()
		}
	}
	if lit != nil {
		// the enclosing function's parameters and locals that the literal mentions are inputs (captured by reference)
		for _, obj := range freeVars(lit, info) {
			if _, done := e.st.vars[obj]; done {
				continue
			}
			e.st.vars[obj] = e.havocVal(obj.Name(), obj.Type())
		}
		// Variables of the enclosing function that are in scope at the literal but not mentioned by it can still be named
		// by the closure's contract (and by channel invariants): they are read-only inputs, provided nothing ever
		// reassigns them (so their value at the spawn, inside the closure and at a later receive is the same).
		reassigned := map[types.Object]bool{}
		ast.Inspect(fi.decl.Body, func(n ast.Node) bool {
			switch x := n.(type) {
			case *ast.AssignStmt:
				if x.Tok != token.DEFINE {
					for _, l := range x.Lhs {
						if id, ok := l.(*ast.Ident); ok {
							if o := info.ObjectOf(id); o != nil {
								reassigned[o] = true
							}
						}
					}
				} else {
					for _, l := range x.Lhs {
						if id, ok := l.(*ast.Ident); ok {
							if o := info.Uses[id]; o != nil {
								reassigned[o] = true // redeclaration in := assigns an existing variable
							}
						}
					}
				}
			case *ast.IncDecStmt:
				if id, ok := x.X.(*ast.Ident); ok {
					if o := info.ObjectOf(id); o != nil {
						reassigned[o] = true
					}
				}
			case *ast.UnaryExpr:
				if x.Op == token.AND {
					if id, ok := x.X.(*ast.Ident); ok {
						if o := info.ObjectOf(id); o != nil {
							reassigned[o] = true
						}
					}
				}
			case *ast.RangeStmt:
				for _, l := range []ast.Expr{x.Key, x.Value} {
					if id, ok := l.(*ast.Ident); ok && x.Tok != token.DEFINE {
						if o := info.ObjectOf(id); o != nil {
							reassigned[o] = true
						}
					}
				}
			}
			return true
		})
		for sc := fi.pkg.Types.Scope().Innermost(lit.Pos()); sc != nil && sc != fi.pkg.Types.Scope(); sc = sc.Parent() {
			for _, n := range sc.Names() {
				obj, ok := sc.Lookup(n).(*types.Var)
				if !ok || obj.Pos() >= lit.Pos() || reassigned[obj] {
					continue
				}
				if _, done := e.st.vars[obj]; done {
					continue
				}
				e.st.vars[obj] = e.havocVal(obj.Name(), obj.Type())
			}
		}
	}
	if ftype.Params != nil {
		for _, fld := range ftype.Params.List {
			for _, n := range fld.Names {
				obj := info.Defs[n]
				if obj == nil || n.Name == "_" {
					continue
				}
				v := e.havocVal(n.Name, obj.Type())
				e.st.vars[obj] = v
				fr.entry[n.Name] = v
				fr.entryT[n.Name] = obj.Type()
			}
		}
	}
	e.setupResults(fr, ftype.Results, sig, info)
	// requires
	env := e.topEnv(e.st)
	env.old = e.st
	for _, r := range ct.Requires {
		e.assume(e.specBool(r, env))
	}
	e.old = e.st.clone()
	// vacuity: the precondition must be satisfiable
	if o := e.oblige("cover/pre", "cover", "preconditions are satisfiable", tFalse); o != nil {
		o.Cover = true
	}
	if ct.Trusted {
		e.trusted["contract of "+e.fnName+" is trusted (body not verified)"] = true
		return e
	}
	e.execBlock(body)
	if !e.dead() {
		e.finishReturn(fr, nil)
	}
	return e
}

// freeVars: variables of the enclosing function used inside lit.
func freeVars(lit *ast.FuncLit, info *types.Info) []*types.Var {
	seen := map[*types.Var]bool{}
	var out []*types.Var
	ast.Inspect(lit.Body, func(n ast.Node) bool {
		id, ok := n.(*ast.Ident)
		if !ok {
			return true
		}
		v, ok := info.Uses[id].(*types.Var)
		if !ok || v.IsField() || v.Pkg() == nil || v.Parent() == v.Pkg().Scope() {
			return true
		}
		if v.Pos() >= lit.Pos() && v.Pos() <= lit.End() {
			return true // declared inside the literal
		}
		if !seen[v] {
			seen[v] = true
			out = append(out, v)
		}
		return true
	})
	return out
}

// assignedFreeVars: free variables that lit assigns.
func assignedFreeVars(lit *ast.FuncLit, info *types.Info) []*types.Var {
	free := map[*types.Var]bool{}
	for _, v := range freeVars(lit, info) {
		free[v] = true
	}
	seen := map[*types.Var]bool{}
	var out []*types.Var
	mark := func(x ast.Expr) {
		if id, ok := ast.Unparen(x).(*ast.Ident); ok {
			if v, ok := info.ObjectOf(id).(*types.Var); ok && free[v] && !seen[v] {
				seen[v] = true
				out = append(out, v)
			}
		}
	}
	ast.Inspect(lit.Body, func(n ast.Node) bool {
		switch s := n.(type) {
		case *ast.AssignStmt:
			for _, l := range s.Lhs {
				mark(l)
			}
		case *ast.IncDecStmt:
			mark(s.X)
		case *ast.RangeStmt:
			if s.Tok == token.ASSIGN {
				if s.Key != nil {
					mark(s.Key)
				}
				if s.Value != nil {
					mark(s.Value)
				}
			}
		}
		return true
	})
	return out
}

func (e *Exec) resultNames(env *SpecEnv, fr *Frame, st *State) {
	n := len(fr.resultKeys)
	for i, k := range fr.resultKeys {
		v := st.vars[k]
		t := fr.resultTypes[i]
		if n == 1 {
			env.names["result"] = boundVar{v, t}
		}
		env.names[fmt.Sprintf("result%d", i)] = boundVar{v, t}
		if obj, ok := k.(types.Object); ok {
			env.names[obj.Name()] = boundVar{v, t}
		}
	}
}

func (e *Exec) checkPosts(retOrd int) {
	fr := e.frames[0]
	// vacuity guard: is this return reachable under the hypotheses collected so far?
	if o := e.oblige(fmt.Sprintf("cover/ret#%d", retOrd), "cover", "this return is reachable (hypotheses not contradictory)", tFalse); o != nil {
		o.Cover = true
	}
	env := e.topEnv(e.st)
	env.paramsAtEntry = true
	env.scopePos = fr.body.Rbrace // locals of the outermost block are visible to postconditions
	env.lenientLocals = true
	e.resultNames(env, fr, e.st)
	for _, inst := range e.contract.Instances {
		e.addFact(e.lemmaInstance(inst, env))
	}
	for i, c := range e.contract.Ensures {
		t := e.specBool(c, env)
		if o := e.oblige(fmt.Sprintf("post#%d@ret#%d", i, retOrd), "post", c.Text, t); o != nil {
			o.postSt = e.st
			o.ClauseTerm = t
		}
	}
	for i, c := range e.contract.Guarantees {
		t := e.specBool(c, env)
		e.oblige(fmt.Sprintf("guarantee#%d@ret#%d", i, retOrd), "post", c.Text, t)
	}
	e.checkFrame(retOrd)
}

type locSet struct {
	whole bool
	refs  []string
}

// modifiesSets evaluates modifies clauses (in the old state) into per-heap-key location sets.
func (e *Exec) modifiesSets(mods []Clause, env *SpecEnv) map[string]*locSet {
	out := map[string]*locSet{}
	add := func(key, ref string) {
		ls := out[key]
		if ls == nil {
			ls = &locSet{}
			out[key] = ls
		}
		if ref == "" {
			ls.whole = true
		} else {
			ls.refs = append(ls.refs, ref)
		}
	}
	for _, m := range mods {
		e.specLoc(m, env, add)
	}
	return out
}

func (e *Exec) specLoc(m Clause, env *SpecEnv, add func(key, ref string)) {
	x := m.Expr
	addVal := func(v Val, t types.Type) {
		// contents reachable through a value: map contents, slice elements
		switch s := v.(type) {
		case SliceV:
			key, _ := elemsKey(elemType(t))
			add(key, s.Base)
		case SV:
			if _, ok := t.Underlying().(*types.Map); ok {
				add("map#dom", s.T)
				add("map#len", s.T)
				mt := t.Underlying().(*types.Map)
				for _, k := range e.mapValKeys(mt.Elem()) {
					add(k.key, s.T)
				}
			}
		}
	}
	switch y := x.(type) {
	case *ast.CallExpr:
		if id, ok := y.Fun.(*ast.Ident); ok && id.Name == "contents" {
			// the contents of a map (or slice) value, not the variable or field holding it
			v, t := e.evalSpec(y.Args[0], env)
			addVal(v, t)
			return
		}
		if id, ok := y.Fun.(*ast.Ident); ok && id.Name == "elems" {
			if a, ok := y.Args[0].(*ast.Ident); ok && a.Name == "_" {
				// contents of any slice
				add("elems:Int", "")
				add("elems:Bool", "")
				add("elems:Ref", "")
				add("elems:Val", "")
				add("elems:Hdl", "")
				return
			}
			v, t := e.evalSpec(y.Args[0], env)
			addVal(v, t)
			return
		}
		if sel, ok := y.Fun.(*ast.SelectorExpr); ok {
			if id, ok := sel.X.(*ast.Ident); ok && id.Name == "ghost" {
				key, _ := e.ghostKey(sel.Sel.Name)
				if len(y.Args) == 1 {
					if a, ok := y.Args[0].(*ast.Ident); ok && a.Name == "_" {
						add(key, "")
						return
					}
					v, _ := e.evalSpec(y.Args[0], env)
					add(key, e.asInt(v))
					return
				}
				add(key, "")
				return
			}
		}
	case *ast.SelectorExpr:
		// whole field: TypeName.field
		if t := e.resolveType(y.X, env); t != nil {
			if _, isVar := env.names[exprText(y.X)]; !isVar {
				st, sname := structOf(t)
				if st != nil {
					for i := 0; i < st.NumFields(); i++ {
						if st.Field(i).Name() == y.Sel.Name {
							for _, k := range e.fieldHeapKeys(sname, st.Field(i)) {
								add(k, "")
							}
							if mt, isMap := st.Field(i).Type().Underlying().(*types.Map); isMap {
								// any map stored in such a field may change
								add("map#dom", "")
								add("map#len", "")
								for _, k := range e.mapValKeys(mt.Elem()) {
									add(k.key, "")
								}
							}
							return
						}
					}
				}
			}
		}
		recv, rt := e.evalSpec(y.X, env)
		if rt == nil {
			e.fail("%s:%d: modifies: cannot type %s", m.File, m.Line, m.Text)
			return
		}
		var pkg *types.Package
		if n, ok := derefNamed(rt); ok && n.Obj().Pkg() != nil {
			pkg = n.Obj().Pkg()
		}
		obj, idx, _ := types.LookupFieldOrMethod(rt, true, pkg, y.Sel.Name)
		f, ok := obj.(*types.Var)
		if !ok {
			e.fail("%s:%d: modifies: no field %s", m.File, m.Line, y.Sel.Name)
			return
		}
		if len(idx) > 1 {
			saved := e.st
			if env.old != nil {
				e.st = env.old
			}
			recv, rt = e.walkFields(recv, rt, idx[:len(idx)-1])
			e.st = saved
		}
		_, sname := structOf(rt)
		ref := e.asInt(recv)
		if kindOf(f.Type()) == kStruct {
			// all fields of the embedded struct
			e.addStructLocs(e.subRef(ref, fieldKey(sname, f)), f.Type(), add)
			return
		}
		for _, k := range e.fieldHeapKeys(sname, f) {
			add(k, ref)
		}
		// map-typed field: the map's contents too
		if _, isMap := f.Type().Underlying().(*types.Map); isMap {
			v, t := e.evalSpec(x, env)
			addVal(v, t)
		}
		return
	case *ast.Ident:
		v, t := e.evalSpec(x, env)
		if t != nil {
			addVal(v, t)
			return
		}
	case *ast.StarExpr:
		v, t := e.evalSpec(y.X, env)
		if p, ok := t.Underlying().(*types.Pointer); ok {
			switch kindOf(p.Elem()) {
			case kBool:
				add("ptr:Bool", e.asInt(v))
			case kSlice:
				for _, s := range []string{"#base", "#off", "#len", "#cap"} {
					add("ptr:sl"+s, e.asInt(v))
				}
			case kStruct:
				e.addStructLocs(e.asInt(v), p.Elem(), add)
			default:
				add("ptr:Int", e.asInt(v))
			}
			return
		}
	}
	e.fail("%s:%d: unsupported modifies target %s", m.File, m.Line, m.Text)
}

// addStructLocs adds every field location of the struct object at ref (recursively through embedded values).
func (e *Exec) addStructLocs(ref string, t types.Type, add func(key, ref string)) {
	st, sname := structOf(t)
	for i := 0; st != nil && i < st.NumFields(); i++ {
		f := st.Field(i)
		if kindOf(f.Type()) == kStruct {
			e.addStructLocs(e.subRef(ref, fieldKey(sname, f)), f.Type(), add)
			continue
		}
		for _, k := range e.fieldHeapKeys(sname, f) {
			add(k, ref)
		}
	}
}

func (e *Exec) fieldHeapKeys(sname string, f *types.Var) []string {
	key := fieldKey(sname, f)
	switch kindOf(f.Type()) {
	case kSlice:
		return []string{key + "#base", key + "#off", key + "#len", key + "#cap"}
	case kStruct, kArray:
		return nil
	}
	return []string{key}
}

func (e *Exec) checkFrame(retOrd int) {
	if e.contract.NoFrame {
		return
	}
	env := e.topEnv(e.old)
	env.inOld = true
	env.cur = e.old
	sets := e.modifiesSets(e.contract.Modifies, env)
	var keys []string
	for k := range e.st.heap {
		keys = append(keys, k)
	}
	sort.Strings(keys)
	for _, k := range keys {
		fin := e.st.heap[k]
		init := e.heapInit[k]
		if fin == init {
			continue
		}
		ls := sets[k]
		if ls != nil && ls.whole {
			continue
		}
		if e.onlyFreshWrites(k, 0) {
			continue // every write to this key hit an object allocated by this call: nothing pre-existing changed
		}
		conds := []string{sx("<=", sx("root", "r!f"), "alloc0"), sx("<", "0", sx("root", "r!f"))}
		if ls != nil {
			for _, r := range ls.refs {
				conds = append(conds, mkNot(mkEq("r!f", r)))
			}
		}
		goal := fmt.Sprintf("(forall ((r!f Int)) (=> %s (= (select %s r!f) (select %s r!f))))", mkAnd(conds...), fin, init)
		e.oblige(fmt.Sprintf("frame[%s]@ret#%d", k, retOrd), "frame", "only the locations in 'modifies' change: "+k, goal)
	}
}

// frameGoal is the frame formula of heap key k for the heap version cur: every location that existed at entry and
// is not listed in 'modifies' has its entry value. ok is false when the key is not constrained by the frame.
func (e *Exec) frameGoal(k, cur string) (string, bool) {
	if e.contract == nil || e.contract.NoFrame || e.old == nil {
		return "", false
	}
	init, has := e.heapInit[k]
	if !has || cur == init {
		return "", false
	}
	env := e.topEnv(e.old)
	env.inOld = true
	env.cur = e.old
	sets := e.modifiesSets(e.contract.Modifies, env)
	ls := sets[k]
	if ls != nil && ls.whole {
		return "", false
	}
	conds := []string{sx("<=", sx("root", "r!f"), "alloc0"), sx("<", "0", sx("root", "r!f"))}
	if ls != nil {
		for _, r := range ls.refs {
			conds = append(conds, mkNot(mkEq("r!f", r)))
		}
	}
	return fmt.Sprintf("(forall ((r!f Int)) (! (=> %s (= (select %s r!f) (select %s r!f))) :pattern ((select %s r!f))))", mkAnd(conds...), cur, init, cur), true
}

// ---- caller-side clauses ------------------------------------------------------

func (e *Exec) checkCallsite(c *ast.CallExpr, fv Val, args []Val) {
	if e.contract == nil || e.dry > 0 {
		return
	}
	site, ok := e.callOrd[c]
	if !ok {
		return
	}
	var evArgs []Val
	var evT []types.Type
	if f, ok := fv.(FuncV); ok && f.Recv != nil {
		evArgs = append(evArgs, f.Recv)
		evT = append(evT, f.RecvT)
	}
	info := e.fi.pkg.TypesInfo
	sig, _ := info.TypeOf(c.Fun).Underlying().(*types.Signature)
	for i, a := range args {
		evArgs = append(evArgs, a)
		var t types.Type
		if sig != nil {
			if i < sig.Params().Len() {
				t = sig.Params().At(i).Type()
			} else if sig.Variadic() {
				t = sig.Params().At(sig.Params().Len() - 1).Type()
			}
		}
		evT = append(evT, t)
	}
	coverDone := false
	if os.Getenv("VERIF_COVER_ALL") != "" {
		coverDone = true
		if o := e.oblige(fmt.Sprintf("cover/site %s#%d", site.Name, site.K), "cover", "this call site is reachable", tFalse); o != nil {
			o.Cover = true
		}
	}
	for i, cs := range e.contract.Calls {
		if cs.Callee != site.Name || (cs.Ord >= 0 && cs.Ord != site.K) {
			continue
		}
		if !coverDone {
			coverDone = true
			// vacuity guard: a call-site clause at an unreachable call site proves nothing
			if o := e.oblige(fmt.Sprintf("cover/site %s#%d", site.Name, site.K), "cover", "this call site is reachable", tFalse); o != nil {
				o.Cover = true
			}
		}
		env := e.loopEnv()
		env.scopePos = c.Pos()
		env.site = &siteCtx{args: evArgs, argT: evT, name: site.Name, k: site.K}
		// inside a callsite clause the call's own arguments are addressable as arg(name,k,i) even for '*' clauses
		if cs.Ord < 0 {
			env.site.k = -1
			env.names["$sitek"] = boundVar{iv(mkInt(int64(site.K))), tInt}
		}
		envp := env
		if cs.Ord < 0 {
			// rewrite: arg(name,*,i) is not expressible; '*' clauses use argn(i)
			envp = env.with(map[string]boundVar{})
			for j, a := range evArgs {
				envp.names[fmt.Sprintf("arg%d", j)] = boundVar{a, evT[j]}
			}
		} else {
			envp = env.with(map[string]boundVar{})
			for j, a := range evArgs {
				envp.names[fmt.Sprintf("arg%d", j)] = boundVar{a, evT[j]}
			}
		}
		t := e.specBool(cs.Req, envp)
		e.oblige(fmt.Sprintf("callsite %s#%d.%d", site.Name, site.K, i), "callsite", cs.Req.Text, t)
		e.assume(t)
	}
	for i, as := range e.contract.Asserts {
		if as.Before != site.Name || (as.Ord >= 0 && as.Ord != site.K) {
			continue
		}
		aenv := e.loopEnv()
		aenv.scopePos = c.Pos()
		t := e.specBool(as.C, aenv)
		e.oblige(fmt.Sprintf("assert#%d before %s#%d", i, site.Name, site.K), "assert", as.C.Text, t)
		e.assume(t) // proved above: available as a cut for what follows
	}
}

// ---- modular calls ----------------------------------------------------------------

func (e *Exec) calleeNames(fi *funcInfo, fn *types.Func, f FuncV, args []Val) (map[string]boundVar, []string) {
	names := map[string]boundVar{}
	sig := fn.Type().(*types.Signature)
	var order []string
	if fi != nil && fi.decl.Recv != nil && len(fi.decl.Recv.List) > 0 && len(fi.decl.Recv.List[0].Names) > 0 && f.Recv != nil {
		n := fi.decl.Recv.List[0].Names[0].Name
		names[n] = boundVar{f.Recv, sig.Recv().Type()}
		order = append(order, n)
	}
	for i := 0; i < sig.Params().Len(); i++ {
		p := sig.Params().At(i)
		if i < len(args) && p.Name() != "" && p.Name() != "_" {
			names[p.Name()] = boundVar{args[i], p.Type()}
		}
	}
	return names, order
}

func (e *Exec) bindResults(names map[string]boundVar, sig *types.Signature, res Val) {
	n := sig.Results().Len()
	get := func(i int) Val {
		if n == 1 {
			return res
		}
		if tv, ok := res.(TupleV); ok && i < len(tv) {
			return tv[i]
		}
		return nil
	}
	for i := 0; i < n; i++ {
		r := sig.Results().At(i)
		v := get(i)
		if v == nil {
			continue
		}
		if n == 1 {
			names["result"] = boundVar{v, r.Type()}
		}
		names[fmt.Sprintf("result%d", i)] = boundVar{v, r.Type()}
		if r.Name() != "" && r.Name() != "_" {
			names[r.Name()] = boundVar{v, r.Type()}
		}
	}
}

func (e *Exec) havocLocs(sets map[string]*locSet) {
	var keys []string
	for k := range sets {
		keys = append(keys, k)
	}
	sort.Strings(keys)
	for _, k := range keys {
		ls := sets[k]
		sortS := e.heapSort[k]
		if sortS == "" {
			// key not yet known in this function: declare with the right sort
			sortS = e.guessHeapSort(k)
			e.heapGet(k, sortS)
		}
		if ls.whole {
			e.st.heap[k] = e.fresh("Hc."+k, sortS)
			e.logWrite(k, "*")
			continue
		}
		cur := e.heapGet(k, sortS)
		src := e.fresh("Hv."+k, sortS)
		for _, r := range ls.refs {
			if strings.HasPrefix(k, "map#") && r != "0" {
				// contents of a map that may be nil: the nil map has nothing to forget (and stays empty)
				cur = mkStore(cur, r, mkIte(mkEq(r, "0"), mkSelect(cur, r), sx("select", src, r)))
				continue
			}
			cur = mkStore(cur, r, sx("select", src, r))
		}
		e.heapSet(k, sortS, cur)
	}
}

func (e *Exec) guessHeapSort(k string) string {
	switch {
	case k == "map#dom":
		return arrSort(SArrB)
	case k == "map#len":
		return SArrI
	case k == "map#val:Bool":
		return arrSort(SArrB)
	case strings.HasPrefix(k, "map#val"):
		return arrSort(SArrI)
	case k == "elems:Bool":
		return arrSort(SArrB)
	case k == "elems:Int", k == "elems:Ref", k == "elems:Val", k == "elems:Hdl":
		return arrSort(SArrI)
	case k == "ptr:Bool":
		return SArrB
	case strings.HasPrefix(k, "ghost:"):
		_, s := e.ghostKey(k[6:])
		return s
	}
	if s, ok := e.fieldSortByKey(k); ok {
		return s
	}
	return SArrI
}

func (e *Exec) fieldSortByKey(k string) (string, bool) {
	// "pkgpath.Type.field[#part]"
	if i := strings.Index(k, "#"); i >= 0 {
		return SArrI, true
	}
	i := strings.LastIndex(k, ".")
	if i < 0 {
		return "", false
	}
	tn, fname := k[:i], k[i+1:]
	j := strings.LastIndex(tn, ".")
	if j < 0 {
		return "", false
	}
	p, ok := e.g.pkgs[shortPkgsRev[tn[:j]]]
	if !ok || p.Types == nil {
		return "", false
	}
	obj := p.Types.Scope().Lookup(tn[j+1:])
	if obj == nil {
		return "", false
	}
	st, ok := obj.Type().Underlying().(*types.Struct)
	if !ok {
		return "", false
	}
	for n := 0; n < st.NumFields(); n++ {
		if st.Field(n).Name() == fname {
			if kindOf(st.Field(n).Type()) == kBool {
				return SArrB, true
			}
			return SArrI, true
		}
	}
	return "", false
}

func (e *Exec) siteLabel(c *ast.CallExpr, fallback string) string {
	if s, ok := e.callOrd[c]; ok {
		return fmt.Sprintf("%s#%d", s.Name, s.K)
	}
	e.n++
	return fmt.Sprintf("%s@inl%d", fallback, e.n)
}

func (e *Exec) applyContract(fn *types.Func, ct *Contract, f FuncV, args []Val, resT types.Type, c *ast.CallExpr) Val {
	fi := e.g.funcs[fn.Origin()]
	sig := fn.Type().(*types.Signature)
	if sig.Recv() != nil && f.Recv == nil && len(args) > 0 {
		f.Recv, args = args[0], args[1:]
	}
	names, _ := e.calleeNames(fi, fn, f, args)
	var cpkg *packages.Package
	if fi != nil {
		cpkg = fi.pkg
	}
	env := &SpecEnv{cur: e.st, old: e.st, names: names, pkg: cpkg, sf: e.g.specs[fn.Pkg().Path()]}
	label := e.siteLabel(c, fn.Name())
	for i, r := range ct.Requires {
		t := e.specBool(r, env)
		e.oblige(fmt.Sprintf("call-pre %s.%d", label, i), "call-pre", r.Text, t)
	}
	if ct.Trusted {
		e.trusted["callee contract "+fn.Pkg().Name()+"."+ct.Key+" is TRUSTED (assumed, body not verified)"] = true
	} else {
		e.trusted["callee contract "+fn.Pkg().Name()+"."+ct.Key+" (verified separately)"] = true
	}
	if ct.Pure {
		// deterministic function of its arguments (and of nothing else): an uninterpreted application, so that
		// two calls with equal arguments agree and specifications can mention the call
		res := e.pureApp(fn, f.RecvT, f.Recv, args, resT)
		env2 := &SpecEnv{cur: e.st, old: e.st, names: map[string]boundVar{}, pkg: cpkg, sf: env.sf}
		for k, v := range names {
			env2.names[k] = v
		}
		e.bindResults(env2.names, sig, res)
		for _, en := range ct.Ensures {
			if mentionsEvents(en.Expr) {
				continue
			}
			e.assume(e.specBool(en, env2))
		}
		return res
	}
	old := e.st.clone()
	envOld := *env
	envOld.cur, envOld.old, envOld.inOld = old, old, true
	sets := e.modifiesSets(ct.Modifies, &envOld)
	if ct.NoFrame {
		// no frame condition stated: the callee may change any field of the struct types of its own package
		// (what its code can reach by visibility), any slice or map contents, pointees and ghost state
		prefix := shortPkg(fn.Pkg().Path()) + "."
		for k := range e.heapSort {
			generic := strings.HasPrefix(k, "elems:") || strings.HasPrefix(k, "map#") || strings.HasPrefix(k, "ptr:") || strings.HasPrefix(k, "ghost:")
			if !generic && !strings.HasPrefix(k, prefix) {
				continue
			}
			if sets[k] == nil {
				sets[k] = &locSet{}
			}
			sets[k].whole = true
		}
	}
	e.havocLocs(sets)
	// the callee may allocate
	na := e.fresh("alloc", SInt)
	e.addFact(sx(">=", na, e.st.alloc))
	e.st.alloc = na
	res := e.havocResult(fn.Name(), resT)
	if ct.Fresh && res != nil {
		if sv, ok := res.(SV); ok {
			e.assume(mkOr(mkEq(sv.T, "0"), sx(">", sx("root", sv.T), old.alloc)))
		}
	}
	env2 := &SpecEnv{cur: e.st, old: old, names: map[string]boundVar{}, pkg: cpkg, sf: env.sf}
	for k, v := range names {
		env2.names[k] = v
	}
	e.bindResults(env2.names, sig, res)
	for _, en := range ct.Ensures {
		if mentionsEvents(en.Expr) {
			// path events of the callee's own body mean nothing to a caller
			e.warn("ensures of %s mentioning path events is not visible to this caller: %s", ct.Key, truncate(en.Text, 80))
			continue
		}
		nerr := len(e.errs)
		t := e.specBool(en, env2)
		if len(e.errs) > nerr {
			// a clause that names a local of the callee means nothing to a caller: not exported
			skip := true
			for _, m := range e.errs[nerr:] {
				if !strings.Contains(m, "unknown identifier") && !strings.Contains(m, "not bound") {
					skip = false
				}
			}
			if skip {
				e.errs = e.errs[:nerr]
				e.warn("ensures of %s naming a local of the callee is not visible to this caller: %s", ct.Key, truncate(en.Text, 80))
				continue
			}
		}
		e.assume(t)
	}
	e.havocBoxed()
	return res
}

func mentionsEvents(x ast.Expr) bool {
	found := false
	ast.Inspect(x, func(n ast.Node) bool {
		if c, ok := n.(*ast.CallExpr); ok {
			if id, ok := c.Fun.(*ast.Ident); ok {
				switch id.Name {
				case "called", "ncalls", "ret", "arg", "sent", "closed", "sentval", "recvd", "recvval", "spawned", "visited", "closure":
					found = true
				}
			}
		}
		return !found
	})
	return found
}

func (e *Exec) applyExtern(fn *types.Func, es *ExternSpec, f FuncV, args []Val, resT types.Type, c *ast.CallExpr) Val {
	sig := fn.Type().(*types.Signature)
	// a generic function: type the parameters with the signature instantiated at this call
	if sig.TypeParams() != nil && sig.TypeParams().Len() > 0 && c != nil {
		if isig, ok := e.typeOf(c.Fun).(*types.Signature); ok && isig.Params().Len() == sig.Params().Len() {
			sig = isig
		}
	}
	all := args
	var allT []types.Type
	if sig.Recv() != nil {
		if f.Recv != nil {
			all = append([]Val{f.Recv}, args...)
		}
		rt := f.RecvT
		if rt == nil {
			rt = sig.Recv().Type()
		}
		allT = append(allT, rt)
	}
	for i := 0; i < sig.Params().Len(); i++ {
		allT = append(allT, sig.Params().At(i).Type())
	}
	names := map[string]boundVar{}
	for i, n := range es.Params {
		if i < len(all) {
			var t types.Type
			if i < len(allT) {
				t = allT[i]
			}
			names[n] = boundVar{all[i], t}
			ai := i
			if sig.Recv() != nil && f.Recv != nil {
				ai = i - 1
			}
			if raw, ok := e.rawArgs[c][ai]; ok && ai >= 0 {
				names[n] = raw
			}
		}
	}
	e.trusted["extern spec "+es.Key+" ("+shortFile(es.File)+")"] = true
	env := &SpecEnv{cur: e.st, old: e.st, names: names, pkg: e.fi.pkg, sf: e.sf}
	label := e.siteLabel(c, fn.Name())
	for i, r := range es.Requires {
		t := e.specBool(r, env)
		e.oblige(fmt.Sprintf("call-pre %s.%d", label, i), "call-pre", r.Text, t)
	}
	var res Val
	old := e.st
	if es.Pure {
		if es.Def != nil {
			v, _ := e.evalSpec(es.Def.Expr, env)
			res = v
		} else {
			var recv Val
			var rt types.Type
			pargs := args
			if sig.Recv() != nil && f.Recv != nil {
				recv, rt = f.Recv, f.RecvT
			}
			res = e.pureApp(fn, rt, recv, pargs, resT)
		}
	} else {
		old = e.st.clone()
		envOld := *env
		envOld.cur, envOld.old, envOld.inOld = old, old, true
		sets := e.modifiesSets(es.Modifies, &envOld)
		e.havocLocs(sets)
		na := e.fresh("alloc", SInt)
		e.addFact(sx(">=", na, e.st.alloc))
		if fn.Pkg() == nil || !strings.HasPrefix(fn.Pkg().Path(), modPath) {
			// whatever code outside the module allocates holds no go-libp2p struct state
			e.addFact(fmt.Sprintf("(forall ((q!a Int)) (! (=> (and (< %s q!a) (<= q!a %s)) (not (foreign q!a))) :pattern ((foreign q!a))))", e.st.alloc, na))
		}
		e.st.alloc = na
		res = e.havocResult(fn.Name(), resT)
		if es.Fresh && res != nil {
			if sv, ok := res.(SV); ok {
				e.assume(mkOr(mkEq(sv.T, "0"), sx(">", sx("root", sv.T), old.alloc)))
			}
			if sl, ok := res.(SliceV); ok {
				// a freshly allocated backing array (writes to it need no frame condition)
				sl.Base = e.allocForeign("fresharr")
				sl.Off = "0"
				res = sl
			}
		}
		e.havocBoxed()
	}
	env2 := &SpecEnv{cur: e.st, old: old, names: map[string]boundVar{}, pkg: e.fi.pkg, sf: e.sf}
	for k, v := range names {
		env2.names[k] = v
	}
	// result names as declared by the spec
	if res != nil {
		if tv, ok := res.(TupleV); ok {
			for i, n := range es.Results {
				if i < len(tv) {
					var t types.Type
					if i < sig.Results().Len() {
						t = sig.Results().At(i).Type()
					}
					env2.names[n] = boundVar{tv[i], t}
				}
			}
		} else if len(es.Results) > 0 {
			var t types.Type
			if sig.Results().Len() > 0 {
				t = sig.Results().At(0).Type()
			}
			env2.names[es.Results[0]] = boundVar{res, t}
			env2.names["result"] = boundVar{res, t}
		} else {
			var t types.Type
			if sig.Results().Len() > 0 {
				t = sig.Results().At(0).Type()
			}
			env2.names["result"] = boundVar{res, t}
		}
	}
	for _, en := range es.Ensures {
		e.assume(e.specBool(en, env2))
	}
	return res
}

func shortFile(f string) string {
	if i := strings.LastIndex(f, "/"); i >= 0 {
		return f[i+1:]
	}
	return f
}

var _ = token.NoPos


// ---- channel invariants ------------------------------------------------------------

// chanInv returns the invariant declared (in the function's contract, also for its closures) for the channel whose
// expression text is name.
func (e *Exec) chanInv(name string) *PredDef {
	for _, ct := range []*Contract{e.contract, e.parentContract} {
		if ct != nil && ct.ChanInvs != nil {
			if p := ct.ChanInvs[name]; p != nil {
				return p
			}
			// the channel variable may have been renamed since the lock was taken (Gen.renames: old -> current)
			if e.fi != nil && e.g.renames != nil {
				for old, p := range ct.ChanInvs {
					root, rest := old, ""
					if i := strings.IndexAny(old, ".[("); i >= 0 {
						root, rest = old[:i], old[i:]
					}
					for _, cur := range e.g.renames[e.fi][root] {
						if cur+rest == name {
							return p
						}
					}
				}
			}
		}
	}
	return nil
}

// chanInvTerm evaluates the invariant for value v (of the channel's element type) in the current state.
func (e *Exec) chanInvTerm(inv *PredDef, v Val, elemT types.Type, pos token.Pos) string {
	env := e.loopEnv()
	env.scopePos = pos
	env = env.with(map[string]boundVar{inv.Params[0].Name: {v, elemT}})
	env.scopePos = pos
	return e.specBool(inv.Body, env)
}

// checkSendInv: obligation at a send on a channel that carries an invariant.
func (e *Exec) checkSendInv(s *ast.SendStmt, v Val) {
	if e.dry > 0 {
		return
	}
	name := exprText(s.Chan)
	inv := e.chanInv(name)
	if inv == nil {
		return
	}
	var et types.Type
	if t := e.typeOf(s.Chan); t != nil {
		if ch, ok := t.Underlying().(*types.Chan); ok {
			et = ch.Elem()
		}
	}
	e.sendSeq++
	t := e.chanInvTerm(inv, v, et, s.Pos())
	e.oblige(fmt.Sprintf("chan-inv %s@send#%d", name, e.sendSeq), "assert", "channel invariant holds for the value sent: "+inv.Body.Text, t)
}

// recvWithInv: a receive from a channel with an invariant. The goroutines that send on it (go statements with function
// literals in this function) may have run: the captured variables they assign are forgotten, then the invariant is
// assumed for the received value (in the receiver's state: the sender does not touch those variables after the send;
// A-SEQ / data-race freedom).
func (e *Exec) recvWithInv(x *ast.UnaryExpr, v Val, ok string) {
	name := exprText(x.X)
	inv := e.chanInv(name)
	if inv == nil {
		return
	}
	fr := e.frames[0]
	if fr.body != nil {
		info := e.fi.pkg.TypesInfo
		ast.Inspect(fr.body, func(n ast.Node) bool {
			g, isGo := n.(*ast.GoStmt)
			if !isGo {
				return true
			}
			lit, isLit := g.Call.Fun.(*ast.FuncLit)
			if !isLit {
				return true
			}
			sends := false
			ast.Inspect(lit.Body, func(m ast.Node) bool {
				if ss, ok := m.(*ast.SendStmt); ok && exprText(ss.Chan) == name {
					sends = true
				}
				return true
			})
			if !sends {
				return true
			}
			if k, ok := e.litOrd[lit]; !ok || e.topContractClosures()[k] == nil {
				e.errs = append(e.errs, fmt.Sprintf("chaninv %s: the goroutine literal that sends on it has no 'closure k' contract (its sends are unchecked)", name))
			} else if e.dry == 0 || true {
				// the goroutine's heap effects: what its contract's frame allows is forgotten
				cct := e.topContractClosures()[k]
				if cct.NoFrame {
					e.havocPkgFields(e.fi.pkg.PkgPath)
				} else if len(cct.Modifies) > 0 {
					menv := e.loopEnv()
					menv.scopePos = lit.Body.Lbrace + 1
					e.havocLocs(e.modifiesSets(cct.Modifies, menv))
				}
			}
			for _, obj := range assignedFreeVars(lit, info) {
				if _, ok := e.st.vars[obj]; ok {
					e.st.vars[obj] = e.havocVal(obj.Name(), obj.Type())
				}
			}
			return true
		})
	}
	var et types.Type
	if t := e.typeOf(x.X); t != nil {
		if ch, ok := t.Underlying().(*types.Chan); ok {
			et = ch.Elem()
		}
	}
	t := e.chanInvTerm(inv, v, et, x.Pos())
	if ok != "" {
		t = mkOr(mkNot(ok), t)
	}
	e.assume(t)
	e.trusted["channel invariant of "+name+" assumed at receive (proved at every send of the function and its contracted closures; A-SEQ)"] = true
}
