package main

// Symbolic executor core: values, state, heap, merging, obligations.

import (
	"fmt"
	"go/ast"
	"go/token"
	"go/types"
	"sort"
	"strings"

	"golang.org/x/tools/go/packages"
)

// ---- values ---------------------------------------------------------------

type Val interface{}

type SV struct { // scalar: Int or Bool sorted term
	T string
	S string
}

type SliceV struct{ Base, Off, Len, Cap string }

type TupleV []Val

type FuncV struct {
	Lit  *ast.FuncLit
	Fn   *types.Func
	Recv Val
	RecvT types.Type
	Pkg  *packages.Package // package whose TypesInfo covers Lit
	Owner *Frame
	ID   string // function literals of the function under contract: the term that stands for this closure value when it is stored
}

type ChoiceV struct {
	Cond string
	A, B Val
}

func iv(t string) SV { return SV{T: t, S: SInt} }
func bv(t string) SV { return SV{T: t, S: SBool} }

func valEq(a, b Val) bool {
	switch x := a.(type) {
	case SV:
		y, ok := b.(SV)
		return ok && x == y
	case SliceV:
		y, ok := b.(SliceV)
		return ok && x == y
	case TupleV:
		y, ok := b.(TupleV)
		if !ok || len(x) != len(y) {
			return false
		}
		for i := range x {
			if !valEq(x[i], y[i]) {
				return false
			}
		}
		return true
	case FuncV:
		y, ok := b.(FuncV)
		return ok && x.Lit == y.Lit && x.Fn == y.Fn && valEq(x.Recv, y.Recv)
	case ChoiceV:
		y, ok := b.(ChoiceV)
		return ok && x.Cond == y.Cond && valEq(x.A, y.A) && valEq(x.B, y.B)
	case nil:
		return b == nil
	}
	return false
}

// ---- state ----------------------------------------------------------------

type State struct {
	pc    string
	vars  map[interface{}]Val
	heap  map[string]string
	alloc string
}

func (s *State) clone() *State {
	n := &State{pc: s.pc, alloc: s.alloc, vars: make(map[interface{}]Val, len(s.vars)), heap: make(map[string]string, len(s.heap))}
	for k, v := range s.vars {
		n.vars[k] = v
	}
	for k, v := range s.heap {
		n.heap[k] = v
	}
	return n
}

type Obligation struct {
	Name   string
	Kind   string // post, inv-entry, inv-preserve, call-pre, callsite, assert, frame, lemma, cover, decreases
	Clause string
	NFacts int
	NDecls int
	Goal   string
	Cover  bool // expected SAT (vacuity check)
	Fn     string
	// filled by the solver stage
	Res SolverResult
	SMTFile string
	WallS  float64
	Retried bool // solved again with a longer timeout after an undecided first attempt
	postSt *State
	ClauseTerm string
	Extra  []string // extra declarations/assertions local to this obligation (skolems)
}

type deferred struct {
	pc   string
	call *ast.CallExpr
	fv   Val
	args []Val
	recvDone bool
	pkg  *packages.Package
}

type loopCtx struct {
	label     string
	breaks    []*State
	continues []*State
	isSwitch  bool // break target only
	// for `loop k atbreak` clauses: the loop's spec, its name and the state at the start of the current iteration
	spec      *LoopSpec
	name      string
	iterStart *State
	bodyEnd   token.Pos
	nbreak    int
}

type Frame struct {
	fn       *types.Func
	sig      *types.Signature
	resultKeys []interface{}
	resultTypes []types.Type
	rets     []*State
	defers   []deferred
	loops    []*loopCtx
	top      bool
	entry    map[string]Val // param name -> entry value (top frame)
	entryT   map[string]types.Type
	pkg      *packages.Package
	body     *ast.BlockStmt
	closure  bool
	scopePos token.Pos
}

type Exec struct {
	g        *Gen
	pkg      *packages.Package
	fi       *funcInfo
	contract *Contract
	sf       *SpecFile
	fnName   string // "pkgname.Key"

	decls    []string
	declared map[string]string
	facts    []string
	obls     []*Obligation
	st       *State
	old      *State // entry state of the function under verification
	frames   []*Frame
	dry      int
	heapInit map[string]string
	heapSort map[string]string
	warns    map[string]int
	trusted  map[string]bool
	n        int
	wrap     bool
	inlining map[*types.Func]int

	retOrd   map[*ast.ReturnStmt]int
	loopOrd  map[ast.Stmt]int
	callOrd  map[*ast.CallExpr]siteID
	sites    []siteID
	litOrd   map[*ast.FuncLit]int
	nRet     int
	fallOff  int

	lemmasUsed map[string]bool
	fnsUsed  map[string]bool
	errs     []string
	ufSig    map[string]string
	boundStack []map[string]boundVar
	extraUses []string
	factSet map[string]int
	qstack  []*qframe
	escaped []escapedLit
	negateFilter bool
	lockSeq int
	parentClosures map[int]*Contract
	parentContract *Contract // contract of the enclosing function when a closure is verified
	sendSeq        int
	invLocs map[string][]string
	refAx   map[string]bool
	known   map[string]bool
	freshOnly map[string]bool
	lockSeqBy map[string]int    // Unlock ordinal per lock (obligation names)
	usedFns   map[string]bool   // spec fns applied while generating this function's obligations
	drySorts  map[string]string // sorts of heap keys seen modified in loop dry runs
	wfDone    map[string]bool   // heap versions that already carry the well-typed-heap fact
	termNames map[string]string // nameTerm memo
	rawArgs   map[*ast.CallExpr]map[int]boundVar // slices passed as interface arguments, unboxed
	// sample values of path events first recorded inside a loop body (shape for the loop-head havoc)
	evSample map[string]Val
	loopAlloc string
	writes  map[string][]string
	writeSeq int
	freshRefs map[string]bool
	curPos  token.Pos
}

type escapedLit struct {
	lit *ast.FuncLit
	ct  *Contract
	pkg *packages.Package
	pos token.Pos
}

type qframe struct {
	names []string
	facts []string
}

type siteID struct {
	Name string
	K    int
}

type boundVar struct {
	V Val
	T types.Type
}

func (e *Exec) warn(format string, a ...interface{}) {
	m := fmt.Sprintf(format, a...)
	e.warns[m]++
}

func (e *Exec) fail(format string, a ...interface{}) {
	m := fmt.Sprintf(format, a...)
	e.errs = append(e.errs, m)
}

func (e *Exec) info() *types.Info { return e.pkg.TypesInfo }

func (e *Exec) declare(name, sort string) {
	if _, ok := e.declared[name]; ok {
		return
	}
	e.declared[name] = sort
	e.decls = append(e.decls, fmt.Sprintf("(declare-const %s %s)", name, sort))
}

func (e *Exec) declareFun(name string, args []string, res string) {
	sig := "(" + strings.Join(args, " ") + ") " + res
	if old, ok := e.declared[name]; ok {
		if old != sig {
			e.fail("uninterpreted function %s used with two signatures: %s vs %s", name, old, sig)
		}
		return
	}
	e.declared[name] = sig
	e.decls = append(e.decls, fmt.Sprintf("(declare-fun %s %s)", name, sig))
}

func smtName(s string) string {
	var b strings.Builder
	for _, c := range s {
		switch {
		case c >= 'a' && c <= 'z', c >= 'A' && c <= 'Z', c >= '0' && c <= '9', c == '_', c == '.', c == '!', c == '$':
			b.WriteRune(c)
		default:
			b.WriteByte('_')
		}
	}
	return b.String()
}

func (e *Exec) fresh(prefix, sort string) string {
	e.n++
	name := fmt.Sprintf("%s!%d", smtName(prefix), e.n)
	e.declare(name, sort)
	// the nil map is empty in every state (nothing can be written to it)
	if strings.HasPrefix(prefix, "H") {
		if strings.HasSuffix(prefix, ".map#dom") && sort == arrSort(SArrB) {
			e.decls = append(e.decls, fmt.Sprintf("(assert (= (select %s 0) ((as const (Array Int Bool)) false)))", name))
		}
		if strings.HasSuffix(prefix, ".map#len") {
			e.decls = append(e.decls, fmt.Sprintf("(assert (= (select %s 0) 0))", name))
		}
	}
	return name
}

// nameTerm gives a long ground term a short name (a constant with a defining equality), so that the terms built
// on top of it stay small and usable as instantiation candidates. Syntactically identical terms share the name.
func (e *Exec) nameTerm(hint, term, sort string) string {
	if len(term) < 100 {
		return term
	}
	for _, q := range e.qstack {
		for _, n := range q.names {
			if strings.Contains(term, n) {
				return term
			}
		}
	}
	if n, ok := e.termNames[term]; ok {
		if _, live := e.declared[n]; live {
			return n
		}
	}
	if e.termNames == nil {
		e.termNames = map[string]string{}
	}
	n := e.fresh(hint, sort)
	e.termNames[term] = n
	e.addFact(mkEq(n, term))
	return n
}

func (e *Exec) addFact(f string) {
	if f == tTrue {
		return
	}
	// facts produced while evaluating the body of a quantifier may mention its bound variables:
	// they are attached to the innermost quantifier that binds one of them
	for i := len(e.qstack) - 1; i >= 0; i-- {
		q := e.qstack[i]
		for _, n := range q.names {
			if strings.Contains(f, n) {
				q.facts = append(q.facts, f)
				return
			}
		}
	}
	if e.factSet == nil {
		e.factSet = map[string]int{}
	}
	if i, ok := e.factSet[f]; ok && i < len(e.facts) && e.facts[i] == f {
		return
	}
	e.factSet[f] = len(e.facts)
	e.facts = append(e.facts, f)
}

// assume adds f under the current path condition.
func (e *Exec) assume(f string) {
	e.addFact(mkImp(e.st.pc, f))
	if e.st.pc == tTrue && e.dry == 0 {
		e.learn(f)
	}
}

// learn records the top-level conjuncts of an unconditional fact for cheap syntactic branch pruning.
func (e *Exec) learn(f string) {
	if e.known == nil {
		e.known = map[string]bool{}
	}
	if strings.HasPrefix(f, "(and ") {
		for _, c := range splitSexp(f[1 : len(f)-1])[1:] {
			e.learn(c)
		}
		return
	}
	if len(f) < 300 {
		e.known[f] = true
	}
}

// decided: is cond syntactically known to be true/false?
func (e *Exec) decided(cond string) (bool, bool) {
	if e.known[cond] {
		return true, true
	}
	if e.known[mkNot(cond)] {
		return false, true
	}
	return false, false
}

func (e *Exec) oblige(name, kind, clause, goal string) *Obligation {
	if e.dry > 0 {
		return nil
	}
	o := &Obligation{Name: e.fnName + "/" + name, Kind: kind, Clause: clause, NFacts: len(e.facts), NDecls: len(e.decls),
		Goal: mkImp(e.st.pc, goal), Fn: e.fnName}
	e.obls = append(e.obls, o)
	return o
}

// namePC gives the path condition a short name.
func (e *Exec) namePC(t string) string {
	if t == tTrue || t == tFalse || !strings.HasPrefix(t, "(") {
		return t
	}
	n := e.fresh("pc", SBool)
	e.addFact(mkEq(n, t))
	return n
}

// ---- type representation --------------------------------------------------

type kind int

const (
	kInt kind = iota
	kBool
	kRef    // pointer, interface, map, chan, func, unsafe pointer
	kString // Int id
	kStruct // by-value struct: Int ref to object
	kSlice
	kFloat
	kTuple
	kArray
	kOther
)

func kindOf(t types.Type) kind {
	if t == nil {
		return kOther
	}
	if isTimeType(t) {
		return kInt // A-TIME: time.Time is a mathematical integer (nanoseconds since the epoch)
	}
	switch u := t.Underlying().(type) {
	case *types.Basic:
		switch {
		case u.Info()&types.IsBoolean != 0:
			return kBool
		case u.Info()&types.IsInteger != 0:
			return kInt
		case u.Info()&types.IsString != 0:
			return kString
		case u.Info()&types.IsFloat != 0, u.Info()&types.IsComplex != 0:
			return kFloat
		case u.Kind() == types.UnsafePointer, u.Kind() == types.UntypedNil:
			return kRef
		}
		return kOther
	case *types.Pointer, *types.Interface, *types.Map, *types.Chan, *types.Signature:
		return kRef
	case *types.Struct:
		return kStruct
	case *types.Slice:
		return kSlice
	case *types.Array:
		return kArray
	case *types.Tuple:
		return kTuple
	case *types.TypeParam:
		return kRef
	}
	return kOther
}

func sortOfType(t types.Type) string {
	if kindOf(t) == kBool {
		return SBool
	}
	return SInt
}

func elemType(t types.Type) types.Type {
	switch u := t.Underlying().(type) {
	case *types.Slice:
		return u.Elem()
	case *types.Array:
		return u.Elem()
	case *types.Pointer:
		return elemType(u.Elem())
	case *types.Map:
		return u.Elem()
	case *types.Basic:
		if u.Info()&types.IsString != 0 {
			return types.Typ[types.Byte]
		}
	}
	return nil
}

func intRange(t types.Type) (lo, hi string, ok bool) {
	b, isB := t.Underlying().(*types.Basic)
	if !isB {
		return
	}
	switch b.Kind() {
	case types.Int, types.Int64:
		return "(- 9223372036854775808)", "9223372036854775807", true
	case types.Int32:
		return "(- 2147483648)", "2147483647", true
	case types.Int16:
		return "(- 32768)", "32767", true
	case types.Int8:
		return "(- 128)", "127", true
	case types.Uint, types.Uint64, types.Uintptr:
		return "0", "18446744073709551615", true
	case types.Uint32:
		return "0", "4294967295", true
	case types.Uint16:
		return "0", "65535", true
	case types.Uint8:
		return "0", "255", true
	}
	return
}

func intModulus(t types.Type) string {
	b, isB := t.Underlying().(*types.Basic)
	if !isB {
		return ""
	}
	switch b.Kind() {
	case types.Int, types.Int64, types.Uint, types.Uint64, types.Uintptr:
		return "18446744073709551616"
	case types.Int32, types.Uint32:
		return "4294967296"
	case types.Int16, types.Uint16:
		return "65536"
	case types.Int8, types.Uint8:
		return "256"
	}
	return ""
}

// ---- fresh symbolic values of a type --------------------------------------

// havocVal returns an unconstrained value of type t (with basic range facts).
func (e *Exec) havocVal(prefix string, t types.Type) Val {
	switch kindOf(t) {
	case kBool:
		return bv(e.fresh(prefix, SBool))
	case kInt:
		n := e.fresh(prefix, SInt)
		if lo, hi, ok := intRange(t); ok {
			e.addFact(mkAnd(sx("<=", lo, n), sx("<=", n, hi)))
		}
		return iv(n)
	case kSlice, kArray:
		s := SliceV{Base: e.fresh(prefix+".base", SInt), Off: e.fresh(prefix+".off", SInt), Len: e.fresh(prefix+".len", SInt), Cap: e.fresh(prefix+".cap", SInt)}
		e.addFact(mkAnd(sx(">=", s.Off, "0"), sx(">=", s.Len, "0"), sx(">=", s.Cap, s.Len)))
		e.addFact(e.existing(s.Base))
		e.addFact(mkImp(mkEq(s.Base, "0"), mkAnd(mkEq(s.Len, "0"), mkEq(s.Off, "0"))))
		if a, ok := t.Underlying().(*types.Array); ok {
			e.addFact(mkEq(s.Len, mkInt(a.Len())))
		}
		return s
	case kTuple:
		tu := t.Underlying().(*types.Tuple)
		var out TupleV
		for i := 0; i < tu.Len(); i++ {
			out = append(out, e.havocVal(fmt.Sprintf("%s.%d", prefix, i), tu.At(i).Type()))
		}
		return out
	case kStruct:
		n := e.fresh(prefix, SInt)
		e.addFact(mkAnd(mkNot(mkEq(n, "0")), e.existing(n)))
		return iv(n)
	case kString:
		n := e.fresh(prefix, SInt)
		return iv(n)
	default:
		n := e.fresh(prefix, SInt)
		e.addFact(e.existing(n))
		return iv(n)
	}
}

// existing: a reference value that exists in the current heap (or nil).
func (e *Exec) existing(r string) string {
	return mkOr(mkEq(r, "0"), mkAnd(sx("<", "0", sx("root", r)), sx("<=", sx("root", r), e.st.alloc)))
}

func (e *Exec) zeroVal(t types.Type) Val {
	switch kindOf(t) {
	case kBool:
		return bv(tFalse)
	case kSlice:
		return SliceV{"0", "0", "0", "0"}
	case kArray:
		a := t.Underlying().(*types.Array)
		base := e.allocRef("arr")
		return SliceV{base, "0", mkInt(a.Len()), mkInt(a.Len())}
	case kStruct:
		r := e.allocRef("zs")
		e.initStruct(r, t)
		return iv(r)
	case kTuple:
		tu := t.Underlying().(*types.Tuple)
		var out TupleV
		for i := 0; i < tu.Len(); i++ {
			out = append(out, e.zeroVal(tu.At(i).Type()))
		}
		return out
	default:
		return iv("0")
	}
}

func (e *Exec) logWrite(key, idx string) {
	if e.writes == nil {
		e.writes = map[string][]string{}
	}
	e.writes[key] = append(e.writes[key], idx)
	e.writeSeq++
}

// isFreshTerm: a reference allocated during this function execution (or an object embedded in one).
func (e *Exec) isFreshTerm(t string) bool {
	for strings.HasPrefix(t, "(sub.") {
		parts := splitSexp(t[1 : len(t)-1])
		if len(parts) != 2 {
			return false
		}
		t = parts[1]
	}
	return e.freshRefs[t]
}

// onlyFreshWrites reports whether all writes to key logged at positions >= from hit fresh objects.
func (e *Exec) onlyFreshWrites(key string, from int) bool {
	ws := e.writes[key]
	if from > len(ws) {
		from = len(ws)
	}
	for _, w := range ws[from:] {
		if w == "*" || !e.isFreshTerm(w) {
			return false
		}
	}
	return true
}

// onlyLoopFreshWrites: all writes logged from position 'from' hit objects allocated after counter value n
// (i.e. inside the loop body whose dry run started at n).
func (e *Exec) onlyLoopFreshWrites(key string, from, n int) bool {
	ws := e.writes[key]
	if from > len(ws) {
		from = len(ws)
	}
	for _, w := range ws[from:] {
		if w == "*" || !e.isFreshTerm(w) || invariantTerm(w, n) {
			return false
		}
	}
	return true
}

func (e *Exec) allocRef(prefix string) string {
	r := e.fresh(prefix, SInt)
	if e.freshRefs == nil {
		e.freshRefs = map[string]bool{}
	}
	e.freshRefs[r] = true
	// the next object: no gap, so that "allocated by this function" covers whole intervals of the counter
	e.addFact(mkAnd(mkEq(r, mkAdd(e.st.alloc, "1")), sx(">", r, "0"), mkEq(sx("root", r), r), mkNot(sx("foreign", r)), mkNot(sx("foreignx", r))))
	e.st.alloc = r
	return r
}

// allocForeign: an object allocated by code we do not execute (a callee used through its contract, an external
// function): it is new, but its cells are NOT known to be zero - they hold whatever the callee put there.
func (e *Exec) allocForeign(prefix string) string {
	r := e.fresh(prefix, SInt)
	if e.freshRefs == nil {
		e.freshRefs = map[string]bool{}
	}
	e.freshRefs[r] = true
	e.addFact(mkAnd(sx(">", r, e.st.alloc), sx(">", r, "0"), mkEq(sx("root", r), r)))
	e.st.alloc = r
	return r
}

// ---- heap -------------------------------------------------------------------

func (e *Exec) heapGet(key, sort string) string {
	if t, ok := e.st.heap[key]; ok {
		return t
	}
	init, ok := e.heapInit[key]
	if !ok {
		init = "H0." + smtName(key)
		e.declare(init, sort)
		e.heapInit[key] = init
		e.heapSort[key] = sort
		// memory model: cells of objects that do not exist yet at function entry read as zero
		// (Go zero-initialises allocations); ghost fields are exempt
		if key == "map#dom" {
			e.decls = append(e.decls, fmt.Sprintf("(assert (= (select %s 0) ((as const (Array Int Bool)) false)))", init)) // the nil map is empty
		}
		if key == "map#len" {
			e.decls = append(e.decls, fmt.Sprintf("(assert (= (select %s 0) 0))", init))
		}
		if key == "map#val.base" || key == "map#val:Ref" {
			// references stored in maps at entry point to objects that exist at entry
			e.decls = append(e.decls, fmt.Sprintf("(assert (forall ((m!w Int) (k!w Int)) (! (<= (root (select (select %s m!w) k!w)) alloc0) :pattern ((select (select %s m!w) k!w)))))", init, init))
		}
		if key == "elems:Ref" || key == "elems:Val" {
			e.decls = append(e.decls, fmt.Sprintf("(assert (forall ((b!w Int) (i!w Int)) (! (<= (root (select (select %s b!w) i!w)) alloc0) :pattern ((select (select %s b!w) i!w)))))", init, init))
		}
		if !strings.HasPrefix(key, "ghost:") && (sort == SArrI || sort == SArrB) {
			zero := "0"
			if sort == SArrB {
				zero = "false"
			}
			// Objects allocated by go-libp2p callees used through contracts are 'foreign': all their cells are arbitrary.
			// Objects allocated by code outside the module ('foreignx') cannot hold go-libp2p struct fields other than
			// zero, but their generic cells (slice/map contents, fields of non-module types) are arbitrary.
			cond := "(not (foreign (root r!z)))"
			if !isModuleFieldKey(key) {
				cond = "(and (not (foreign (root r!z))) (not (foreignx (root r!z))))"
			}
			e.decls = append(e.decls, fmt.Sprintf("(assert (forall ((r!z Int)) (! (=> (and (> (root r!z) alloc0) %s) (= (select %s r!z) %s)) :pattern ((select %s r!z)))))", cond, init, zero, init))
		}
	}
	return init
}

func (e *Exec) heapSet(key, sort, term string) {
	e.heapGet(key, sort) // make sure init exists
	// write log: which location of this heap key is written (used for loop havoc and frame obligations)
	idx := "*"
	if strings.HasPrefix(term, "(store ") {
		if parts := splitSexp(term[1 : len(term)-1]); len(parts) == 4 {
			idx = parts[2]
		}
	}
	e.logWrite(key, idx)
	if len(term) > 200 {
		n := e.fresh("H."+key, sort)
		e.addFact(mkEq(n, term))
		term = n
	}
	e.st.heap[key] = term
}

func structOf(t types.Type) (*types.Struct, string) {
	if p, ok := t.Underlying().(*types.Pointer); ok {
		t = p.Elem()
	}
	name := ""
	switch n := t.(type) {
	case *types.Named:
		name = n.Origin().Obj().Name()
		if n.Obj().Pkg() != nil {
			name = shortPkg(n.Obj().Pkg().Path()) + "." + name
		}
	case *types.Alias:
		return structOf(types.Unalias(t))
	}
	st, ok := t.Underlying().(*types.Struct)
	if !ok {
		return nil, ""
	}
	if name == "" {
		name = "anon." + smtName(types.TypeString(st, nil))
		if len(name) > 60 {
			name = name[:60]
		}
	}
	return st, name
}

func fieldKey(structName string, f *types.Var) string { return structName + "." + f.Name() }

// subRef is the reference of a by-value struct field inside its parent object.
func (e *Exec) subRef(parent, key string) string {
	fn := "sub." + smtName(key)
	pfn := "par." + smtName(key)
	if _, ok := e.declared[fn]; !ok {
		e.declareFun(fn, []string{SInt}, SInt)
		e.declareFun(pfn, []string{SInt}, SInt)
		tagID := e.g.strID("subtag:" + key)
		// injectivity, sign, root and tag of embedded objects (axiom of the memory model)
		ax := fmt.Sprintf("(forall ((x Int)) (! (and (= (%s (%s x)) x) (< (%s x) 0) (= (root (%s x)) (root x)) (= (subtag (%s x)) %d)) :pattern ((%s x))))",
			pfn, fn, fn, fn, fn, tagID, fn)
		e.decls = append(e.decls, "(assert "+ax+")")
	}
	return sx(fn, parent)
}

func (e *Exec) readField(ref string, structT types.Type, f *types.Var) Val {
	_, sname := structOf(structT)
	key := fieldKey(sname, f)
	switch kindOf(f.Type()) {
	case kStruct:
		return iv(e.subRef(ref, key))
	case kSlice:
		return SliceV{
			Base: mkSelect(e.heapGet(key+"#base", SArrI), ref),
			Off:  mkSelect(e.heapGet(key+"#off", SArrI), ref),
			Len:  mkSelect(e.heapGet(key+"#len", SArrI), ref),
			Cap:  mkSelect(e.heapGet(key+"#cap", SArrI), ref),
		}
	case kArray:
		a := f.Type().Underlying().(*types.Array)
		return SliceV{Base: e.subRef(ref, key), Off: "0", Len: mkInt(a.Len()), Cap: mkInt(a.Len())}
	case kBool:
		return bv(mkSelect(e.heapGet(key, SArrB), ref))
	case kRef:
		e.refKeyAxiom(key)
		return iv(mkSelect(e.heapGet(key, SArrI), ref))
	default:
		return iv(mkSelect(e.heapGet(key, SArrI), ref))
	}
}

// refKeyAxiom: references stored in the entry heap point to objects that exist at entry (well-typed heap).
func (e *Exec) refKeyAxiom(key string) {
	if e.refAx == nil {
		e.refAx = map[string]bool{}
	}
	if e.refAx[key] {
		return
	}
	e.refAx[key] = true
	init := e.heapGet(key, SArrI)
	if init != e.heapInit[key] {
		init = e.heapInit[key]
	}
	e.decls = append(e.decls, fmt.Sprintf("(assert (forall ((r!w Int)) (! (<= (root (select %s r!w)) alloc0) :pattern ((select %s r!w)))))", init, init))
}

// wfHeaps: in every reachable state references stored in the heap point to objects that exist (root <= alloc). The
// entry versions get this as axioms; versions created by forgetting (loop heads, callee effects) get it here, at
// points where heap and allocation counter are in sync.
func (e *Exec) wfHeaps() {
	if e.st == nil {
		return
	}
	if e.wfDone == nil {
		e.wfDone = map[string]bool{}
	}
	emit := func(key string, twoLevel bool) {
		cur, ok := e.st.heap[key]
		if !ok {
			return
		}
		// innermost named version under stores
		for strings.HasPrefix(cur, "(store ") {
			parts := splitSexp(cur[1 : len(cur)-1])
			if len(parts) != 4 {
				return
			}
			cur = parts[1]
		}
		if strings.HasPrefix(cur, "(") || strings.HasPrefix(cur, "H0.") || strings.HasPrefix(cur, "Hm.") || strings.HasPrefix(cur, "H.") {
			return
		}
		if _, live := e.declared[cur]; !live || e.wfDone[cur+"|"+e.st.alloc] {
			return
		}
		e.wfDone[cur+"|"+e.st.alloc] = true
		if twoLevel {
			e.addFact(fmt.Sprintf("(forall ((m!w Int) (k!w Int)) (! (<= (root (select (select %s m!w) k!w)) %s) :pattern ((select (select %s m!w) k!w))))", cur, e.st.alloc, cur))
		} else {
			e.addFact(fmt.Sprintf("(forall ((r!w Int)) (! (<= (root (select %s r!w)) %s) :pattern ((select %s r!w))))", cur, e.st.alloc, cur))
		}
	}
	for _, k := range []string{"map#val.base", "map#val:Ref", "elems:Ref", "elems:Val"} {
		emit(k, true)
	}
	var ks []string
	for k := range e.refAx {
		ks = append(ks, k)
	}
	sortStrings(ks)
	for _, k := range ks {
		emit(k, false)
	}
}

// sliceFacts: basic well-formedness of a slice read from the heap.
func (e *Exec) sliceFacts(s SliceV) {
	e.assume(mkAnd(sx(">=", s.Off, "0"), sx(">=", s.Len, "0"), sx(">=", s.Cap, s.Len), e.existing(s.Base),
		mkImp(mkEq(s.Base, "0"), mkEq(s.Len, "0"))))
}

func (e *Exec) writeField(ref string, structT types.Type, f *types.Var, v Val) {
	_, sname := structOf(structT)
	key := fieldKey(sname, f)
	switch kindOf(f.Type()) {
	case kStruct:
		src, ok := v.(SV)
		if !ok {
			e.warn("struct field write with non-struct value %s", key)
			return
		}
		e.copyStruct(e.subRef(ref, key), src.T, f.Type())
	case kSlice:
		s, ok := v.(SliceV)
		if !ok {
			e.warn("slice field write with non-slice value %s", key)
			s = e.havocVal("sl", f.Type()).(SliceV)
		}
		e.heapSet(key+"#base", SArrI, mkStore(e.heapGet(key+"#base", SArrI), ref, s.Base))
		e.heapSet(key+"#off", SArrI, mkStore(e.heapGet(key+"#off", SArrI), ref, s.Off))
		e.heapSet(key+"#len", SArrI, mkStore(e.heapGet(key+"#len", SArrI), ref, s.Len))
		e.heapSet(key+"#cap", SArrI, mkStore(e.heapGet(key+"#cap", SArrI), ref, s.Cap))
	case kArray:
		e.warn("array field write not modelled %s", key)
	case kBool:
		e.heapSet(key, SArrB, mkStore(e.heapGet(key, SArrB), ref, e.asBool(v)))
	default:
		e.heapSet(key, SArrI, mkStore(e.heapGet(key, SArrI), ref, e.asInt(v)))
	}
}

func (e *Exec) asInt(v Val) string {
	switch x := v.(type) {
	case SV:
		if x.S == SBool {
			return mkIte(x.T, "1", "0")
		}
		return x.T
	case FuncV:
		if x.ID != "" {
			return x.ID
		}
		return e.fresh("fn", SInt)
	case ChoiceV:
		// function values stored somewhere: opaque non-nil reference
		return e.fresh("fn", SInt)
	case SliceV:
		return x.Base
	case nil:
		return "0"
	}
	e.warn("asInt on %T", v)
	return e.fresh("unk", SInt)
}

func (e *Exec) asBool(v Val) string {
	if x, ok := v.(SV); ok {
		if x.S == SBool {
			return x.T
		}
		return mkNot(mkEq(x.T, "0"))
	}
	e.warn("asBool on %T", v)
	return e.fresh("unkb", SBool)
}

func (e *Exec) copyStruct(dst, src string, t types.Type) {
	st, _ := structOf(t)
	if st == nil {
		return
	}
	for i := 0; i < st.NumFields(); i++ {
		f := st.Field(i)
		if isSyncType(f.Type()) {
			continue
		}
		e.writeField(dst, t, f, e.readField(src, t, f))
	}
}

func isSyncType(t types.Type) bool {
	if n, ok := t.(*types.Named); ok && n.Obj().Pkg() != nil {
		p := n.Obj().Pkg().Path()
		return p == "sync" || p == "sync/atomic" && false
	}
	return false
}

func (e *Exec) initStruct(ref string, t types.Type) {
	st, _ := structOf(t)
	if st == nil {
		return
	}
	for i := 0; i < st.NumFields(); i++ {
		f := st.Field(i)
		if isSyncType(f.Type()) {
			continue
		}
		switch kindOf(f.Type()) {
		case kStruct:
			_, sname := structOf(t)
			e.initStruct(e.subRef(ref, fieldKey(sname, f)), f.Type())
		case kArray:
		default:
			e.writeField(ref, t, f, e.zeroValShallow(f.Type()))
		}
	}
}

func (e *Exec) zeroValShallow(t types.Type) Val {
	switch kindOf(t) {
	case kBool:
		return bv(tFalse)
	case kSlice:
		return SliceV{"0", "0", "0", "0"}
	default:
		return iv("0")
	}
}

// slices

func elemsKey(elemT types.Type) (string, string) {
	switch kindOf(elemT) {
	case kBool:
		return "elems:Bool", arrSort(SArrB)
	case kRef:
		return "elems:Ref", arrSort(SArrI)
	case kStruct:
		return "elems:Val", arrSort(SArrI) // by-value struct elements (references to private copies)
	case kSlice:
		return "elems:Hdl", arrSort(SArrI) // slices of slices: elements are slice handles
	}
	return "elems:Int", arrSort(SArrI)
}

func (e *Exec) readElem(s SliceV, idx string, elemT types.Type) Val {
	key, sort := elemsKey(elemT)
	t := mkSelect(mkSelect(e.heapGet(key, sort), s.Base), mkAdd(s.Off, idx))
	if kindOf(elemT) == kBool {
		return bv(t)
	}
	if kindOf(elemT) == kSlice {
		// slice of slices: element is an opaque handle; expose it as a slice with uninterpreted header
		return e.handleSlice(t)
	}
	return iv(t)
}

func (e *Exec) handleSlice(h string) SliceV {
	for _, f := range []string{"hs.base", "hs.off", "hs.len"} {
		e.declareFun(f, []string{SInt}, SInt)
	}
	s := SliceV{Base: sx("hs.base", h), Off: sx("hs.off", h), Len: sx("hs.len", h), Cap: sx("hs.len", h)}
	e.addFact(mkAnd(sx(">=", s.Len, "0"), sx(">=", s.Off, "0")))
	return s
}

func (e *Exec) sliceHandle(s SliceV) string {
	e.declareFun("hs.mk", []string{SInt, SInt, SInt}, SInt)
	for _, f := range []string{"hs.base", "hs.off", "hs.len"} {
		e.declareFun(f, []string{SInt}, SInt)
	}
	h := sx("hs.mk", s.Base, s.Off, s.Len)
	e.addFact(mkAnd(mkEq(sx("hs.base", h), s.Base), mkEq(sx("hs.off", h), s.Off), mkEq(sx("hs.len", h), s.Len)))
	return h
}

func (e *Exec) writeElem(s SliceV, idx string, elemT types.Type, v Val) {
	key, sort := elemsKey(elemT)
	h := e.heapGet(key, sort)
	var vt string
	switch kindOf(elemT) {
	case kBool:
		vt = e.asBool(v)
	case kSlice:
		if sv, ok := v.(SliceV); ok {
			vt = e.sliceHandle(sv)
		} else {
			vt = e.asInt(v)
		}
	case kStruct:
		// value struct element: store a private copy
		if sv, ok := v.(SV); ok {
			r := e.allocRef("elcopy")
			e.copyStruct(r, sv.T, elemT)
			vt = r
		} else {
			vt = e.asInt(v)
		}
	default:
		vt = e.asInt(v)
	}
	e.heapSet(key, sort, mkStore(h, s.Base, mkStore(mkSelect(h, s.Base), mkAdd(s.Off, idx), vt)))
}

// maps: shared arrays for all map objects
func (e *Exec) mapDom(m string) string {
	return mkSelect(e.heapGet("map#dom", arrSort(SArrB)), m)
}
func (e *Exec) mapHas(m, k string) string { return mkSelect(e.mapDom(m), k) }
func (e *Exec) mapLen(m string) string    { return mkSelect(e.heapGet("map#len", SArrI), m) }

func (e *Exec) mapValKeys(valT types.Type) []struct{ key, sort string } {
	switch kindOf(valT) {
	case kBool:
		return []struct{ key, sort string }{{"map#val:Bool", arrSort(SArrB)}}
	case kSlice:
		return []struct{ key, sort string }{{"map#val.base", arrSort(SArrI)}, {"map#val.off", arrSort(SArrI)}, {"map#val.len", arrSort(SArrI)}}
	case kRef, kStruct:
		return []struct{ key, sort string }{{"map#val:Ref", arrSort(SArrI)}}
	default:
		return []struct{ key, sort string }{{"map#val:Int", arrSort(SArrI)}}
	}
}

func (e *Exec) mapRead(m, k string, valT types.Type) Val {
	ks := e.mapValKeys(valT)
	has := e.mapHas(m, k)
	switch kindOf(valT) {
	case kBool:
		return bv(mkAnd(has, mkSelect(mkSelect(e.heapGet(ks[0].key, ks[0].sort), m), k)))
	case kSlice:
		// (header parts of a slice read from a map are long ite terms: name them, so that offsets and bases built on
		// them stay short and comparable across heap versions)
		g := func(i int, hint string) string {
			return e.nameTerm(hint, mkIte(has, mkSelect(mkSelect(e.heapGet(ks[i].key, ks[i].sort), m), k), "0"), SInt)
		}
		s := SliceV{Base: g(0, "mv.b"), Off: g(1, "mv.o"), Len: g(2, "mv.l")}
		s.Cap = s.Len
		return s
	default:
		return iv(e.nameTerm("mv", mkIte(has, mkSelect(mkSelect(e.heapGet(ks[0].key, ks[0].sort), m), k), "0"), SInt))
	}
}

func (e *Exec) mapWrite(m, k string, valT types.Type, v Val) {
	ks := e.mapValKeys(valT)
	had := e.mapHas(m, k)
	oldLen := e.mapLen(m)
	domH := e.heapGet("map#dom", arrSort(SArrB))
	e.heapSet("map#dom", arrSort(SArrB), mkStore(domH, m, mkStore(mkSelect(domH, m), k, tTrue)))
	e.heapSet("map#len", SArrI, mkStore(e.heapGet("map#len", SArrI), m, mkIte(had, oldLen, mkAdd(oldLen, "1"))))
	put := func(i int, vt string) {
		h := e.heapGet(ks[i].key, ks[i].sort)
		e.heapSet(ks[i].key, ks[i].sort, mkStore(h, m, mkStore(mkSelect(h, m), k, vt)))
	}
	switch kindOf(valT) {
	case kBool:
		put(0, e.asBool(v))
	case kSlice:
		s, ok := v.(SliceV)
		if !ok {
			s = SliceV{"0", "0", "0", "0"}
		}
		put(0, s.Base)
		put(1, s.Off)
		put(2, s.Len)
	case kStruct:
		if sv, ok := v.(SV); ok {
			r := e.allocRef("mvcopy")
			e.copyStruct(r, sv.T, valT)
			put(0, r)
		} else {
			put(0, e.asInt(v))
		}
	default:
		put(0, e.asInt(v))
	}
}

func (e *Exec) mapDelete(m, k string) {
	had := e.mapHas(m, k)
	oldLen := e.mapLen(m)
	domH := e.heapGet("map#dom", arrSort(SArrB))
	e.heapSet("map#dom", arrSort(SArrB), mkStore(domH, m, mkStore(mkSelect(domH, m), k, tFalse)))
	e.heapSet("map#len", SArrI, mkStore(e.heapGet("map#len", SArrI), m, mkIte(had, mkSub(oldLen, "1"), oldLen)))
}

// newMapT allocates an empty map of Go type t (maps of different types are different objects).
func (e *Exec) newMapT(t types.Type) string {
	m := e.newMap()
	if t != nil {
		e.declareFun("maptag", []string{SInt}, SInt)
		e.addFact(mkEq(sx("maptag", m), mkInt(int64(e.g.typeID(t.Underlying())))))
	}
	return m
}

func (e *Exec) newMap() string {
	m := e.allocRef("map")
	domH := e.heapGet("map#dom", arrSort(SArrB))
	e.heapSet("map#dom", arrSort(SArrB), mkStore(domH, m, "((as const (Array Int Bool)) false)"))
	e.heapSet("map#len", SArrI, mkStore(e.heapGet("map#len", SArrI), m, "0"))
	return m
}

// ghost fields: ghost.name(x) -> heap key "ghost:name"
func (e *Exec) ghostKey(name string) (string, string) {
	s, ok := e.g.ghost[name]
	if !ok {
		s = SBool
	}
	return "ghost:" + name, arrSort(s)
}

// ---- merging ---------------------------------------------------------------

func (e *Exec) mergeVal(c string, a, b Val, hint string) Val {
	if valEq(a, b) {
		return a
	}
	switch x := a.(type) {
	case SV:
		y, ok := b.(SV)
		if !ok || x.S != y.S {
			return ChoiceV{c, a, b}
		}
		n := e.fresh("m."+hint, x.S)
		e.addFact(mkEq(n, mkIte(c, x.T, y.T)))
		return SV{n, x.S}
	case SliceV:
		y, ok := b.(SliceV)
		if !ok {
			return ChoiceV{c, a, b}
		}
		m := func(p, q, h string) string {
			if p == q {
				return p
			}
			n := e.fresh("m."+hint+h, SInt)
			e.addFact(mkEq(n, mkIte(c, p, q)))
			return n
		}
		return SliceV{m(x.Base, y.Base, ".b"), m(x.Off, y.Off, ".o"), m(x.Len, y.Len, ".l"), m(x.Cap, y.Cap, ".c")}
	case TupleV:
		y, ok := b.(TupleV)
		if !ok || len(x) != len(y) {
			return ChoiceV{c, a, b}
		}
		out := make(TupleV, len(x))
		for i := range x {
			out[i] = e.mergeVal(c, x[i], y[i], hint)
		}
		return out
	}
	return ChoiceV{c, a, b}
}

func varHint(k interface{}) string {
	switch x := k.(type) {
	case types.Object:
		return x.Name()
	case string:
		return x
	}
	return "v"
}

// merge joins two states (either may be dead).
func (e *Exec) merge(a, b *State) *State {
	if a == nil || a.pc == tFalse {
		if b == nil {
			return a
		}
		return b
	}
	if b == nil || b.pc == tFalse {
		return a
	}
	out := &State{vars: map[interface{}]Val{}, heap: map[string]string{}}
	out.pc = e.namePC(mkOr(a.pc, b.pc))
	c := a.pc
	// deterministic order
	type kv struct {
		k interface{}
		s string
	}
	var keys []kv
	for k := range a.vars {
		if _, ok := b.vars[k]; ok {
			keys = append(keys, kv{k, keyString(k)})
		}
	}
	sort.Slice(keys, func(i, j int) bool { return keys[i].s < keys[j].s })
	for _, k := range keys {
		out.vars[k.k] = e.mergeVal(c, a.vars[k.k], b.vars[k.k], varHint(k.k))
	}
	// ghost path events recorded on one side only: "not called" on the other side
	oneSided := func(x, y *State, xIsA bool) {
		var ks []string
		for k := range x.vars {
			if s, ok := k.(string); ok {
				if _, both := y.vars[k]; !both && isEventKey(s) {
					ks = append(ks, s)
				}
			}
		}
		sort.Strings(ks)
		for _, s := range ks {
			v := x.vars[s]
			var other Val
			switch {
			case strings.HasPrefix(s, "called:"):
				other = bv(tFalse)
			case strings.HasPrefix(s, "ncalls:"):
				other = iv("0")
			case strings.HasPrefix(s, "sent:"), strings.HasPrefix(s, "recvd:"):
				other = iv("0") // nothing sent / received on the other path
			case strings.HasPrefix(s, "closed:"), strings.HasPrefix(s, "spawned:"):
				other = bv(tFalse) // not closed / not spawned on the other path
			default:
				out.vars[s] = v // argument/result of a call that did not happen on the other path: arbitrary there
				continue
			}
			if xIsA {
				out.vars[s] = e.mergeVal(c, v, other, s)
			} else {
				out.vars[s] = e.mergeVal(c, other, v, s)
			}
		}
	}
	oneSided(a, b, true)
	oneSided(b, a, false)
	hk := map[string]bool{}
	for k := range a.heap {
		hk[k] = true
	}
	for k := range b.heap {
		hk[k] = true
	}
	var hks []string
	for k := range hk {
		hks = append(hks, k)
	}
	sort.Strings(hks)
	for _, k := range hks {
		ta, ok := a.heap[k]
		if !ok {
			ta = e.heapInit[k]
		}
		tb, ok := b.heap[k]
		if !ok {
			tb = e.heapInit[k]
		}
		if ta == tb {
			out.heap[k] = ta
			continue
		}
		n := e.fresh("Hm."+k, e.heapSort[k])
		e.addFact(mkEq(n, mkIte(c, ta, tb)))
		out.heap[k] = n
	}
	if a.alloc == b.alloc {
		out.alloc = a.alloc
	} else {
		n := e.fresh("alloc", SInt)
		e.addFact(mkEq(n, mkIte(c, a.alloc, b.alloc)))
		out.alloc = n
	}
	return out
}

func keyString(k interface{}) string {
	switch x := k.(type) {
	case types.Object:
		return fmt.Sprintf("o:%s@%d", x.Name(), x.Pos())
	case string:
		return "s:" + x
	}
	return fmt.Sprintf("%v", k)
}

func (e *Exec) mergeAll(states []*State) *State {
	var out *State
	for _, s := range states {
		out = e.merge(out, s)
	}
	return out
}

func (e *Exec) dead() bool { return e.st.pc == tFalse }

func (e *Exec) frame() *Frame { return e.frames[len(e.frames)-1] }

var shortPkgs = map[string]string{}
var shortPkgsRev = map[string]string{}

// shortPkg gives a package path a short unique name (last element, disambiguated if needed).
// isModuleFieldKey: the heap key is a field of a struct type declared in go-libp2p itself.
func isModuleFieldKey(key string) bool {
	if strings.ContainsAny(key, "#:") {
		return false
	}
	i := strings.Index(key, ".")
	if i < 0 {
		return false
	}
	if key[:i] == "anon" {
		return true // anonymous struct types occur only inside the module's own declarations
	}
	p, ok := shortPkgsRev[key[:i]]
	return ok && strings.HasPrefix(p, modPath)
}

func shortPkg(path string) string {
	if s, ok := shortPkgs[path]; ok {
		return s
	}
	base := path
	if i := strings.LastIndex(path, "/"); i >= 0 {
		base = path[i+1:]
	}
	s := base
	for n := 2; ; n++ {
		if p, taken := shortPkgsRev[s]; !taken || p == path {
			break
		}
		s = fmt.Sprintf("%s%d", base, n)
	}
	shortPkgs[path] = s
	shortPkgsRev[s] = path
	return s
}

func isTimeType(t types.Type) bool {
	if a, ok := t.(*types.Alias); ok {
		t = types.Unalias(a)
	}
	n, ok := t.(*types.Named)
	return ok && n.Obj().Pkg() != nil && n.Obj().Pkg().Path() == "time" && n.Obj().Name() == "Time"
}

func isEventKey(s string) bool {
	return strings.HasPrefix(s, "called:") || strings.HasPrefix(s, "ncalls:") || strings.HasPrefix(s, "ret:") || strings.HasPrefix(s, "arg:") ||
		strings.HasPrefix(s, "sent:") || strings.HasPrefix(s, "closed:") || strings.HasPrefix(s, "recvd:") ||
		strings.HasPrefix(s, "recvval:") || strings.HasPrefix(s, "sentval:") || strings.HasPrefix(s, "spawned:") ||
		strings.HasPrefix(s, "closureval:")
}
