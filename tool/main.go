package main

import (
	"runtime/pprof"
	"encoding/json"
	"fmt"
	"go/ast"
	"go/types"
	"os"
	"path/filepath"
	"regexp"
	"sort"
	"strconv"
	"strings"
	"sync"
	"time"
)

const verifRoot = "/verif"

type PropConfig struct {
	Packages []string `json:"packages"`
	Title    string   `json:"title"`
	Unproved []string `json:"unproved_clauses"`
	Assumptions []string `json:"assumptions"`
}

type KnownFinding struct {
	Property   string `json:"property"`
	Obligation string `json:"obligation"` // name without @ret suffix
	Class      string `json:"class"`      // spec expression over the function's entry state; "" = any counterexample
	What       string `json:"what"`
	Commit     string `json:"commit,omitempty"`
}

type KnownFindings struct {
	Open  []KnownFinding `json:"open"`
	Fixed []KnownFinding `json:"fixed"`
}

func loadJSON(path string, v interface{}) error {
	b, err := os.ReadFile(path)
	if err != nil {
		return err
	}
	return json.Unmarshal(b, v)
}

func main() {
	if len(os.Args) < 2 {
		usage()
	}
	switch os.Args[1] {
	case "check":
		if len(os.Args) < 4 {
			usage()
		}
		if pf := os.Getenv("VERIF_CPUPROFILE"); pf != "" {
			f, _ := os.Create(pf)
			pprof.StartCPUProfile(f)
			rc := runCheck(os.Args[2], os.Args[3], false)
			pprof.StopCPUProfile()
			f.Close()
			os.Exit(rc)
		}
		os.Exit(runCheck(os.Args[2], os.Args[3], false))
	case "lock":
		if len(os.Args) < 3 {
			usage()
		}
		os.Exit(runCheck(os.Args[2], "thorough", true))
	case "replay":
		if len(os.Args) < 3 {
			usage()
		}
		os.Exit(runReplayFile(os.Args[2]))
	case "parse":
		sf, err := parseSpecFile(os.Args[2], "")
		if err != nil {
			fmt.Println("ERROR", err)
			os.Exit(2)
		}
		fmt.Printf("%d contracts, %d preds, %d fns, %d lemmas, %d externs\n", len(sf.Contracts), len(sf.Preds), len(sf.Fns), len(sf.Lemmas), len(sf.Externs))
	default:
		usage()
	}
}

// outRoot: where evidence and replays are written (the selftest redirects it away from /verif).
func outRoot() string {
	if d := os.Getenv("VERIF_OUT"); d != "" {
		return d
	}
	return verifRoot
}

func usage() {
	fmt.Fprintln(os.Stderr, "usage: vcgen check <prop> quick|thorough | vcgen lock <prop> | vcgen replay <file>")
	os.Exit(2)
}

func envInt(name string, def int) int {
	if s := os.Getenv(name); s != "" {
		if n, err := strconv.Atoi(s); err == nil {
			return n
		}
	}
	return def
}

var retSuffix = regexp.MustCompile(`@ret#\d+$`)

// lockName maps an obligation name to the clause-level name recorded in the lock file ("" = not locked).
func lockName(o *Obligation) string {
	switch o.Kind {
	case "post", "inv-entry", "inv-preserve", "decreases", "lemma", "assert":
		return retSuffix.ReplaceAllString(o.Name, "")
	case "callsite":
		return o.Name
	}
	return ""
}

type funcReport struct {
	Name        string   `json:"name"`
	File        string   `json:"file"`
	Obligations int      `json:"obligations"`
	Discharged  int      `json:"discharged"`
	Warnings    []string `json:"dropped_constructs,omitempty"`
}

func runCheck(prop, tier string, writeLock bool) int {
	t0 := time.Now()
	seed := envInt("VERIF_SEED", 0)
	repo := os.Getenv("VERIF_REPO")
	if repo == "" {
		repo = "/repo"
	}
	var cfgs map[string]PropConfig
	if err := loadJSON(filepath.Join(verifRoot, "props.json"), &cfgs); err != nil {
		fmt.Println("cannot read props.json:", err)
		return 2
	}
	// per-property configuration files (one per property, so that they can be edited independently)
	if more, _ := filepath.Glob(filepath.Join(verifRoot, "props.d", "*.json")); len(more) > 0 {
		for _, f := range more {
			var c map[string]PropConfig
			if err := loadJSON(f, &c); err != nil {
				fmt.Println("cannot read", f, err)
				return 2
			}
			for k, v := range c {
				cfgs[k] = v
			}
		}
	}
	cfg, ok := cfgs[prop]
	if !ok {
		fmt.Println("unknown property", prop)
		return 2
	}
	scratch, err := os.MkdirTemp("", "vcgen-"+prop+"-")
	if err != nil {
		fmt.Println(err)
		return 2
	}
	if os.Getenv("VERIF_KEEP") == "" {
		defer os.RemoveAll(scratch)
	} else {
		fmt.Println("scratch:", scratch)
	}
	var violations []string
	replayDir := filepath.Join(outRoot(), "replays", prop)
	os.RemoveAll(replayDir)
	violate := func(obl string, noInput bool, payload map[string]interface{}) {
		os.MkdirAll(replayDir, 0o755)
		fn := filepath.Join(replayDir, sanitizeFile(obl)+".json")
		payload["property"] = prop
		payload["obligation"] = obl
		b, _ := json.MarshalIndent(payload, "", " ")
		os.WriteFile(fn, b, 0o644)
		line := fmt.Sprintf("VIOLATION property=%s replay=%s", prop, fn)
		if noInput {
			line += " no-failing-input-found"
		}
		violations = append(violations, line)
	}

	g, err := loadGen(repo, cfg.Packages, filepath.Join(verifRoot, "specs"), prop)
	if err != nil {
		// the tree does not load (or a contract file does not parse): everything is undecided
		violate("load", true, map[string]interface{}{"reason": "generator could not load packages or contracts", "detail": err.Error()})
		writeEvidence(prop, tier, seed, nil, nil, nil, cfg, time.Since(t0).Seconds(), 1, nil, nil)
		for _, v := range violations {
			fmt.Println(v)
		}
		return 1
	}
	for _, sf := range g.specs {
		for _, gh := range sf.Ghosts {
			g.ghost[gh[0]] = map[string]string{"int": SInt, "bool": SBool}[gh[1]]
		}
	}
	loadS := time.Since(t0).Seconds()

	// collect functions and lemmas of this property
	var execs []*Exec
	localsSeen := map[string]bool{}
	var lockedList []string
	loadJSON(filepath.Join(verifRoot, "locks", prop+".json"), &lockedList)
	var allObls []*Obligation
	var freps []*funcReport
	var genErrs []string
	var pkgPaths []string
	for p := range g.specs {
		pkgPaths = append(pkgPaths, p)
	}
	sort.Strings(pkgPaths)
	hasProp := func(ps []string) bool {
		for _, p := range ps {
			if p == prop {
				return true
			}
		}
		return false
	}
	for _, pp := range pkgPaths {
		sf := g.specs[pp]
		pkg := g.pkgs[pp]
		for _, key := range sf.Order {
			ct := sf.Contracts[key]
			if !hasProp(ct.Props) {
				continue
			}
			fi := findFunc(g, pp, key)
			if fi == nil {
				genErrs = append(genErrs, fmt.Sprintf("%s: function %s under contract no longer exists", pp, key))
				violate(pkg.Types.Name()+"."+key+"/missing", true, map[string]interface{}{"reason": "function under contract not found in the current source", "contract": fmt.Sprintf("%s:%d", ct.File, ct.Line)})
				continue
			}
			// locals table: recorded at lock time, compared now (pure renames rebind contract names)
			{
				fnKey := pkg.Types.Name() + "." + key
				tab := localsTable(fi)
				cur := fnKey + "/cover/locals=" + strings.Join(tab, "|")
				localsSeen[cur] = true
				if !writeLock {
					for _, n := range lockedList {
						if strings.HasPrefix(n, fnKey+"/cover/locals=") && n != cur {
							if m := renameMap(strings.Split(strings.TrimPrefix(n, fnKey+"/cover/locals="), "|"), tab); m != nil {
								if g.renames == nil {
									g.renames = map[*funcInfo]map[string][]string{}
								}
								g.renames[fi] = m
							}
						}
					}
				}
			}
			e := safeVerify(g, fi, ct)
			execs = append(execs, e)
			fr := &funcReport{Name: e.fnName, File: g.fset.Position(fi.decl.Pos()).String()}
			for w, n := range e.warns {
				fr.Warnings = append(fr.Warnings, fmt.Sprintf("%s (x%d)", w, n))
			}
			sort.Strings(fr.Warnings)
			freps = append(freps, fr)
			if len(e.errs) > 0 {
				genErrs = append(genErrs, e.errs...)
				violate(e.fnName+"/generate", true, map[string]interface{}{"reason": "the generator could not translate this function or its contract; obligations are undecided", "errors": e.errs})
			}
			for _, o := range e.obls {
				o.Fn = e.fnName
			}
			allObls = append(allObls, e.obls...)
			// closures with their own contracts
			var cks []int
			for k := range ct.Closures {
				cks = append(cks, k)
			}
			sort.Ints(cks)
			for _, k := range cks {
				cct := ct.Closures[k]
				lit := nthFuncLit(fi, k)
				if lit == nil {
					violate(pkg.Types.Name()+"."+cct.Key+"/missing", true, map[string]interface{}{"reason": "function literal under contract not found"})
					continue
				}
				ce := safeVerifyLit(g, fi, cct, lit, ct)
				execs = append(execs, ce)
				cfr := &funcReport{Name: ce.fnName, File: g.fset.Position(lit.Pos()).String()}
				for w, n := range ce.warns {
					cfr.Warnings = append(cfr.Warnings, fmt.Sprintf("%s (x%d)", w, n))
				}
				freps = append(freps, cfr)
				if len(ce.errs) > 0 {
					genErrs = append(genErrs, ce.errs...)
					violate(ce.fnName+"/generate", true, map[string]interface{}{"reason": "the generator could not translate this closure or its contract", "errors": ce.errs})
				}
				for _, o := range ce.obls {
					o.Fn = ce.fnName
				}
				allObls = append(allObls, ce.obls...)
			}
		}
		// lemmas
		var lnames []string
		for n := range sf.Lemmas {
			lnames = append(lnames, n)
		}
		sort.Strings(lnames)
		for _, n := range lnames {
			l := sf.Lemmas[n]
			if !hasProp(l.Props) {
				continue
			}
			e := lemmaObligations(g, pkg, sf, l)
			execs = append(execs, e)
			if len(e.errs) > 0 {
				genErrs = append(genErrs, e.errs...)
				violate(e.fnName+"/generate", true, map[string]interface{}{"reason": "lemma could not be translated", "errors": e.errs})
			}
			allObls = append(allObls, e.obls...)
			freps = append(freps, &funcReport{Name: e.fnName, File: fmt.Sprintf("%s:%d", l.File, l.Line)})
		}
	}
	genS := time.Since(t0).Seconds() - loadS

	// build SMT and solve
	timeout := 10
	if tier == "thorough" {
		timeout = 60
	}
	timeout = envInt("VERIF_TIMEOUT", timeout)
	execOf := map[*Obligation]*Exec{}
	for _, e := range execs {
		for _, o := range e.obls {
			execOf[o] = e
		}
	}
	if seed != 0 {
		// seed-dependent order
		r := uint64(seed)*6364136223846793005 + 1442695040888963407
		for i := len(allObls) - 1; i > 0; i-- {
			r = r*6364136223846793005 + 1442695040888963407
			j := int((r >> 33) % uint64(i+1))
			allObls[i], allObls[j] = allObls[j], allObls[i]
		}
	}
	var wg sync.WaitGroup
	var genSMT float64
	sem := make(chan struct{}, envInt("VERIF_JOBS", 12))
	only := os.Getenv("VERIF_ONLY")
	for _, o := range allObls {
		_ = tier
		if only != "" && !strings.Contains(o.Name, only) {
			continue
		}
		wg.Add(1)
		go func(o *Obligation) {
			defer wg.Done()
			sem <- struct{}{}
			defer func() { <-sem }()
			e := execOf[o]
			tg := time.Now()
			body, ground := e.smtFor2(o)
			atomicAddF(&genSMT, time.Since(tg).Seconds())
			fn, err := writeSMT(scratch, o.Name, body)
			if err != nil {
				o.Res = SolverResult{Status: "error", Output: err.Error()}
				return
			}
			o.SMTFile = fn
			if len(body) > 8<<20 {
				o.Res = SolverResult{Status: "error", Output: "VC larger than 8 MB"}
				return
			}
			gfn := ""
			if ground != "" {
				gfn, _ = writeSMT(scratch, o.Name+".ground", ground)
			}
			ts := time.Now()
			o.Res = solveVariants(fn, gfn, timeout, seed, tier == "thorough" && !o.Cover)
			o.WallS = time.Since(ts).Seconds()
		}(o)
	}
	wg.Wait()
	// Second chance for undecided obligations: a timeout under machine load is not a refutation. Obligations that
	// ended without an answer (no solver said sat) are solved again, few at a time, with a longer timeout. Only what
	// is still undecided after that is reported.
	{
		var retry []*Obligation
		var kf0 KnownFindings
		loadJSON(filepath.Join(verifRoot, "known-findings.json"), &kf0)
		knownObl := map[string]bool{}
		for _, k := range kf0.Open {
			if k.Property == prop {
				knownObl[k.Obligation] = true
			}
		}
		for _, o := range allObls {
			if o.Cover || o.SMTFile == "" {
				continue
			}
			if knownObl[retSuffix.ReplaceAllString(o.Name, "")] {
				continue // an open known finding: expected to fail, no second attempt
			}
			if o.Res.Status == "unknown" || o.Res.Status == "timeout" {
				retry = append(retry, o)
			}
		}
		if len(retry) > 0 && len(retry) <= 40 && os.Getenv("VERIF_NORETRY") == "" {
			rsem := make(chan struct{}, 3)
			var rwg sync.WaitGroup
			for _, o := range retry {
				rwg.Add(1)
				go func(o *Obligation) {
					defer rwg.Done()
					rsem <- struct{}{}
					defer func() { <-rsem }()
					gfn := strings.TrimSuffix(o.SMTFile, ".smt2") + ".ground.smt2"
					if _, err := os.Stat(gfn); err != nil {
						gfn = ""
					}
					ts := time.Now()
					first := o.Res
					o.Res = solveVariants(o.SMTFile, gfn, timeout*4, seed, true)
					o.Res.TimeS += first.TimeS
					o.WallS += time.Since(ts).Seconds()
					o.Retried = true
				}(o)
			}
			rwg.Wait()
		}
	}
	sort.Slice(allObls, func(i, j int) bool { return allObls[i].Name < allObls[j].Name })

	var kf KnownFindings
	loadJSON(filepath.Join(verifRoot, "known-findings.json"), &kf)
	for _, f := range kf.Fixed {
		_ = f
	}

	// classify
	byBackend := map[string]int{}
	solverTime := 0.0
	nObl, nDis := 0, 0
	type slow struct {
		Name string  `json:"name"`
		S    float64 `json:"s"`
		By   string  `json:"solver"`
	}
	var slowest []slow
	var samples []map[string]interface{}
	seenLock := map[string]bool{}
	for k := range localsSeen {
		seenLock[k] = true
	}
	fnRep := map[string]*funcReport{}
	for _, fr := range freps {
		fnRep[fr.Name] = fr
	}
	var knownLines []string
	vacuity := map[string]string{}
	lockedSet := map[string]bool{}
	nRetOf := map[string]int{}
	for _, e := range execs {
		nRetOf[e.fnName] = e.nRet
	}
	{
		var l0 []string
		loadJSON(filepath.Join(verifRoot, "locks", prop+".json"), &l0)
		for _, n := range l0 {
			lockedSet[n] = true
		}
	}
	for _, o := range allObls {
		if o.Res.Status == "" {
			continue // not run in this tier
		}
		solverTime += o.Res.TimeS
		if o.Cover {
			isPre := strings.HasSuffix(o.Name, "cover/pre")
			switch o.Res.Status {
			case "sat":
				vacuity[o.Name] = "reachable"
				seenLock[o.Name] = true
			case "unsat":
				// an unreachable return can be legitimate dead code; it is a violation if the precondition itself is
				// contradictory, or if this return was reachable on the unchanged tree (recorded in the lock file)
				vacuity[o.Name] = "unreachable"
				fnKey := o.Fn + "/cover/nret=" + strconv.Itoa(nRetOf[o.Fn])
				isSite := strings.Contains(o.Name, "/cover/site ")
				if isPre || (lockedSet[o.Name] && (lockedSet[fnKey] || isSite)) {
					vacuity[o.Name] = "VACUOUS"
					violate(o.Name, true, map[string]interface{}{"reason": "vacuity: hypotheses are contradictory here although this point was reachable on the unchanged tree; every obligation behind it would pass trivially", "clause": o.Clause})
				}
			default:
				vacuity[o.Name] = "undecided (" + o.Res.Status + ")"
				if lockedSet[o.Name] {
					seenLock[o.Name] = true // undecided is not an alarm
				}
			}
			continue
		}
		nObl++
		if fr := fnRep[o.Fn]; fr != nil {
			fr.Obligations++
		}
		ok := o.Res.Status == "unsat"
		if ok {
			nDis++
			byBackend[o.Res.Solver]++
			if fr := fnRep[o.Fn]; fr != nil {
				fr.Discharged++
			}
			if ln := lockName(o); ln != "" {
				seenLock[ln] = true
			}
			slowest = append(slowest, slow{o.Name, o.Res.TimeS, o.Res.Solver})
			if len(samples) < 6 && (o.Kind == "post" || o.Kind == "inv-preserve" || o.Kind == "lemma" || o.Kind == "callsite") {
				samples = append(samples, map[string]interface{}{"obligation": o.Name, "kind": o.Kind, "clause": o.Clause,
					"smt_bytes": fileSize(o.SMTFile), "solver": o.Res.Solver, "time_s": round3(o.Res.TimeS)})
			}
			continue
		}
		// failed obligation
		e := execOf[o]
		if kfm := matchKnown(kf.Open, prop, o, e, scratch, timeout, seed); kfm != nil {
			knownLines = append(knownLines, fmt.Sprintf("KNOWN-FINDING: property=%s %s [%s]", prop, kfm.What, o.Name))
			nObl-- // a known finding is neither discharged nor counted
			if fr := fnRep[o.Fn]; fr != nil {
				fr.Obligations--
			}
			if ln := lockName(o); ln != "" {
				seenLock[ln] = true
			}
			continue
		}
		payload := map[string]interface{}{"clause": o.Clause, "kind": o.Kind, "solver_status": o.Res.Status, "solver": o.Res.Solver,
			"solver_answers": o.Res.Answers, "function": o.Fn}
		noInput := true
		if o.Res.Status == "sat" {
			cex := e.projectModel(o.Res.Model)
			payload["counterexample"] = cex
			payload["reason"] = "the solver found a state satisfying the hypotheses and violating the clause"
			confirmed, rep := tryReplay(g, e, o, cex, scratch)
			payload["replay"] = rep
			var fx Fixture
			if loadJSON(fixturePath(e.fnName), &fx) == nil {
				payload["package_dir"] = fx.PackageDir
			}
			if confirmed {
				noInput = false
			}
		} else {
			payload["reason"] = "obligation could not be discharged (" + o.Res.Status + "); undecided obligations are reported, not ignored"
			out := o.Res.Output
			if len(out) > 2000 {
				out = out[:2000]
			}
			payload["solver_output"] = out
		}
		if b, err := os.ReadFile(o.SMTFile); err == nil && len(b) < 300000 {
			payload["smt2"] = string(b)
		}
		violate(o.Name, noInput, payload)
	}

	// lock file
	// one lock file per property: /verif/locks/<prop>.json
	lockPath := filepath.Join(verifRoot, "locks", prop+".json")
	locks := map[string][]string{}
	{
		var l0 []string
		loadJSON(lockPath, &l0)
		locks[prop] = l0
	}
	for fn, n := range nRetOf {
		seenLock[fn+"/cover/nret="+strconv.Itoa(n)] = true
	}
	if writeLock {
		var names []string
		for n := range seenLock {
			names = append(names, n)
		}
		sort.Strings(names)
		locks[prop] = names
		os.MkdirAll(filepath.Dir(lockPath), 0o755)
		b, _ := json.MarshalIndent(names, "", " ")
		os.WriteFile(lockPath, b, 0o644)
		fmt.Printf("lock: %d clause-level obligations recorded for %s\n", len(names), prop)
		for k, v := range vacuity {
			if v != "reachable" {
				fmt.Printf("lock: REVIEW %s is %s (dead code under the contract, or a contradictory hypothesis?)\n", k, v)
			}
		}
	} else if only == "" {
		for _, n := range locks[prop] {
			if strings.Contains(n, "/cover/") {
				continue // reachability entries are used by the vacuity guard only
			}
			if !seenLock[n] {
				// it may have failed (already reported) or vanished
				reported := false
				for _, o := range allObls {
					if lockName(o) == n && o.Res.Status != "" {
						reported = true
					}
				}
				if !reported {
					violate(n+"/vanished", true, map[string]interface{}{"reason": "an obligation that was discharged on the unchanged tree is no longer generated (contract no longer binds to the code)", "generator_errors": genErrs})
				}
			}
		}
		if len(locks[prop]) == 0 {
			fmt.Println("note: no lock entries for", prop)
		}
	}

	sort.Slice(slowest, func(i, j int) bool { return slowest[i].S > slowest[j].S })
	if len(slowest) > 5 {
		slowest = slowest[:5]
	}
	trusted := map[string]bool{}
	for _, e := range execs {
		for k := range e.trusted {
			trusted[k] = true
		}
	}
	extra := map[string]interface{}{
		"functions_under_contract": freps,
		"by_backend":               byBackend,
		"solver_time_s":            round3(solverTime),
		"load_s":                   round3(loadS),
		"generate_s":               round3(genS),
		"slowest":                  slowest,
		"vacuity":                  vacuity,
		"known_findings":           knownLines,
		"unproved_clauses":         cfg.Unproved,
		"spec_files":               g.specFiles,
		"timeout_s":                timeout,
		"vc_build_cpu_s":           round3(genSMT),
	}
	wall := time.Since(t0).Seconds()
	writeEvidence(prop, tier, seed, samples, trusted, extra, cfg, wall, len(violations), &nObl, &nDis)
	for _, l := range knownLines {
		fmt.Println(l)
	}
	fmt.Printf("%s %s: %d functions/lemmas, %d obligations, %d discharged, %d violations, %.1fs (load %.1fs, solver cpu %.1fs)\n",
		prop, tier, len(freps), nObl, nDis, len(violations), wall, loadS, solverTime)
	if os.Getenv("VERIF_VERBOSE") != "" {
		for _, o := range allObls {
			if o.Res.Status != "" {
				fmt.Printf("  %-8s %-7s %6.2fs %6.2fs %s %v\n", o.Res.Status, o.Res.Solver, o.Res.TimeS, o.WallS, o.Name, o.Res.Answers)
			}
		}
		for _, fr := range freps {
			for _, w := range fr.Warnings {
				fmt.Printf("  warn %s: %s\n", fr.Name, w)
			}
		}
	}
	for _, v := range violations {
		fmt.Println(v)
	}
	if len(violations) > 0 {
		return 1
	}
	return 0
}

func safeVerify(g *Gen, fi *funcInfo, ct *Contract) (e *Exec) {
	defer func() {
		if r := recover(); r != nil {
			if e == nil {
				e = newExec(g, fi.pkg)
				e.fnName = fi.pkg.Types.Name() + "." + ct.Key
			}
			e.errs = append(e.errs, fmt.Sprintf("generator panic in %s: %v", ct.Key, r))
			if os.Getenv("VERIF_VERBOSE") != "" {
				panic(r)
			}
		}
	}()
	e = verifyFunc(g, fi, ct, nil, nil)
	return e
}

func safeVerifyLit(g *Gen, fi *funcInfo, ct *Contract, lit *ast.FuncLit, parent *Contract) (e *Exec) {
	defer func() {
		if r := recover(); r != nil {
			if e == nil {
				e = newExec(g, fi.pkg)
				e.fnName = fi.pkg.Types.Name() + "." + ct.Key
			}
			e.errs = append(e.errs, fmt.Sprintf("generator panic in %s: %v", ct.Key, r))
			if os.Getenv("VERIF_VERBOSE") != "" {
				panic(r)
			}
		}
	}()
	e = verifyFunc(g, fi, ct, lit, parent)
	return e
}

// nthFuncLit returns the k-th function literal of fi in source order (the numbering of computeOrdinals).
func nthFuncLit(fi *funcInfo, k int) *ast.FuncLit {
	var lits []*ast.FuncLit
	var visit func(root ast.Node)
	visit = func(root ast.Node) {
		ast.Inspect(root, func(n ast.Node) bool {
			if x, ok := n.(*ast.FuncLit); ok && n != root {
				lits = append(lits, x)
				visit(x)
				return false
			}
			return true
		})
	}
	visit(fi.decl.Body)
	if k < len(lits) {
		return lits[k]
	}
	return nil
}

func findFunc(g *Gen, pkgPath, key string) *funcInfo {
	for fn, fi := range g.funcs {
		if fn.Pkg() != nil && fn.Pkg().Path() == pkgPath && funcKey(fn) == key {
			return fi
		}
	}
	return nil
}

func fileSize(p string) int64 {
	st, err := os.Stat(p)
	if err != nil {
		return 0
	}
	return st.Size()
}

func round3(f float64) float64 { return float64(int(f*1000+0.5)) / 1000 }

var standingAssumptions = []string{
	"A-SEQ: statements of one function run without interference from other goroutines; go statements are spawn events, no interleaving is explored",
	"A-ATOM: Lock/Unlock are no-ops; critical sections are atomic",
	"A-MATH: machine integers are treated as mathematical integers except in functions whose contract says 'arith wrap' (there: exact two's complement)",
	"A-LOG: logging, metrics and tracing calls have no effect on program state",
	"A-NOPANIC: panicking paths are not modelled; explicit panic() ends the path",
	"A-APPEND: append always copies (fresh backing array with equal prefix)",
	"A-PURE: interface getters declared 'pure' in /verif/specs are deterministic functions of their receiver and arguments",
	"A-EXT: calls without contract or extern spec havoc their results and are assumed not to modify fields of the verified packages",
	"A-TIME: time.Time/Duration are mathematical integers (nanoseconds); no saturation, no monotonic clock",
	"trusted: the VC generator in /verif/tool, go/types, and the SMT solvers z3 4.8.12, z3 5.1.0, cvc5 1.0.3",
}

func writeEvidence(prop, tier string, seed int, samples []map[string]interface{}, trusted map[string]bool, extra map[string]interface{}, cfg PropConfig, wall float64, nviol int, nObl, nDis *int) {
	var tb []string
	for k := range trusted {
		tb = append(tb, k)
	}
	sort.Strings(tb)
	if tb == nil {
		tb = []string{}
	}
	cov := map[string]interface{}{
		"checker_cmd":  fmt.Sprintf("/verif/bin/check %s %s  (vcgen: go/packages + weakest-precondition style symbolic execution of the real function bodies in /repo; obligations discharged by z3-new 5.1.0 | cvc5 1.0.3 | z3 4.8.12 portfolio)", prop, tier),
		"trusted_base": tb,
	}
	if nObl != nil {
		cov["obligations"] = *nObl
		cov["discharged"] = *nDis
	} else {
		cov["obligations"] = 0
		cov["discharged"] = 0
	}
	if samples == nil {
		samples = []map[string]interface{}{}
	}
	cov["samples"] = samples
	for k, v := range extra {
		cov[k] = v
	}
	assum := append([]string{}, standingAssumptions...)
	assum = append(assum, cfg.Assumptions...)
	ev := map[string]interface{}{
		"property_id": prop, "tier": tier, "seed": seed, "level": "proof", "coverage": cov,
		"assumptions": assum, "wall_s": round3(wall), "violations": nviol,
	}
	os.MkdirAll(filepath.Join(outRoot(), "evidence"), 0o755)
	b, _ := json.MarshalIndent(ev, "", " ")
	os.WriteFile(filepath.Join(outRoot(), "evidence", prop+".json"), b, 0o644)
}

// ---- SMT assembly ---------------------------------------------------------------

const prelude = `(set-option :produce-models true)
(set-logic ALL)
(define-fun tdiv ((a Int) (b Int)) Int (ite (>= a 0) (div a b) (- (div (- a) b))))
(define-fun tmod ((a Int) (b Int)) Int (- a (* b (tdiv a b))))
(declare-fun strlen (Int) Int)
(declare-fun root (Int) Int)
(declare-fun foreign (Int) Bool)
(declare-fun foreignx (Int) Bool)
(assert (= (root 0) 0))
(declare-fun dyntype (Int) Int)
(declare-fun subtag (Int) Int)
`

// smtFor2 builds the query and, when it contains quantifiers, a pre-instantiated version plus its
// quantifier-free weakening (see inst.go).
func (e *Exec) smtFor2(o *Obligation) (string, string) {
	if os.Getenv("VERIF_NOINST") != "" {
		return e.smtFor(o), ""
	}
	var head strings.Builder
	head.WriteString(prelude)
	head.WriteString(e.specFnDefs())
	var hyps []*Sx
	for _, d := range e.decls {
		if strings.HasPrefix(d, "(assert ") {
			hyps = append(hyps, parseSx(d).L[1])
			continue
		}
		head.WriteString(d)
		head.WriteByte('\n')
	}
	for _, ln := range strings.Split(e.lemmaAxioms(), "\n") {
		if strings.HasPrefix(ln, "(assert ") {
			hyps = append(hyps, parseSx(ln).L[1])
		}
	}
	for _, f := range e.facts[:o.NFacts] {
		hyps = append(hyps, parseSx(f))
	}
	for _, x := range o.Extra {
		if strings.HasPrefix(x, "(assert ") {
			hyps = append(hyps, parseSx(x).L[1])
		} else {
			head.WriteString(x)
			head.WriteByte('\n')
		}
	}
	ic := &instCtx{sortOf: map[string]string{}}
	var proc []*Sx
	for _, h := range hyps {
		flattenAssert(ic.pos(h), &proc)
	}
	flattenAssert(ic.neg(parseSx(o.Goal)), &proc)
	if !ic.hasQ {
		return e.smtFor(o), ""
	}
	proc = ic.abbreviate(proc, funSorts(head.String()))
	if o.Cover {
		// satisfiability question: answer it on the quantifier-free weakening (instances included); with
		// quantifiers present no solver reports "sat". This shows the hypotheses are not plainly contradictory.
		inst := ic.instantiate(proc, 2)
		if sizeOf(inst) > 5<<20 {
			// too many instances: one round with a small per-quantifier budget (the weakening stays a weakening)
			ic2 := &instCtx{sortOf: map[string]string{}, budget: 24}
			var proc2 []*Sx
			for _, h := range hyps {
				flattenAssert(ic2.pos(h), &proc2)
			}
			flattenAssert(ic2.neg(parseSx(o.Goal)), &proc2)
			inst2 := ic2.instantiate(proc2, 1)
			if sizeOf(inst2) > 5<<20 {
				inst2 = nil
			}
			ic, proc, inst = ic2, proc2, inst2
		}
		var ground strings.Builder
		ground.WriteString(uninterpretRec(head.String()))
		for _, d := range ic.decls {
			ground.WriteString(d + "\n")
		}
		for _, a := range append(proc, inst...) {
			g := dropForalls(a)
			if !(g.isAtom() && g.A == "true") {
				ground.WriteString("(assert " + g.String() + ")\n")
			}
		}
		ground.WriteString("(check-sat)\n")
		return ground.String(), ""
	}
	t0 := time.Now()
	inst := ic.instantiate(proc, 3)
	if os.Getenv("VERIF_PROF") != "" {
		fmt.Fprintf(os.Stderr, "inst %s: %d asserts -> %d instances (%d bytes) in %v\n", o.Name, len(proc), len(inst), sizeOf(inst), time.Since(t0))
	}
	if sizeOf(inst) > 5<<20 {
		// too many instances: retry with smaller per-quantifier budgets / fewer rounds; if that is still too big,
		// leave the quantifiers to the solvers
		ok := false
		for _, try := range []struct{ budget, rounds int }{{24, 3}, {8, 3}, {24, 2}, {24, 1}} {
			ic2 := &instCtx{sortOf: map[string]string{}, budget: try.budget}
			var proc2 []*Sx
			for _, h := range hyps {
				flattenAssert(ic2.pos(h), &proc2)
			}
			flattenAssert(ic2.neg(parseSx(o.Goal)), &proc2)
			proc2 = ic2.abbreviate(proc2, funSorts(head.String()))
			inst2 := ic2.instantiate(proc2, try.rounds)
			if sizeOf(inst2) <= 5<<20 {
				ic, proc, inst = ic2, proc2, inst2
				ok = true
				break
			}
		}
		if !ok {
			return e.smtFor(o), ""
		}
	}
	var full, ground strings.Builder
	full.WriteString(head.String())
	ground.WriteString(head.String())
	for _, d := range ic.decls {
		full.WriteString(d + "\n")
		ground.WriteString(d + "\n")
	}
	for _, a := range append(proc, inst...) {
		full.WriteString("(assert " + a.String() + ")\n")
		g := dropForalls(a)
		if !(g.isAtom() && g.A == "true") {
			ground.WriteString("(assert " + g.String() + ")\n")
		}
	}
	full.WriteString("(check-sat)\n(get-model)\n")
	ground.WriteString("(check-sat)\n")
	return full.String(), ground.String()
}

func (e *Exec) smtFor(o *Obligation) string {
	var b strings.Builder
	b.WriteString(prelude)
	defs := e.specFnDefs()
	if o.Cover {
		// satisfiability queries: recursive definitions and quantified lemmas make "sat" undecidable in
		// practice; use uninterpreted versions (checks that the hypotheses are not plainly contradictory)
		defs = uninterpretRec(defs)
	}
	b.WriteString(defs)
	for _, d := range e.decls {
		b.WriteString(d)
		b.WriteByte('\n')
	}
	if !o.Cover {
		b.WriteString(e.lemmaAxioms())
	}
	for _, f := range e.facts[:o.NFacts] {
		b.WriteString("(assert ")
		b.WriteString(f)
		b.WriteString(")\n")
	}
	for _, x := range o.Extra {
		b.WriteString(x)
		b.WriteByte('\n')
	}
	if o.Cover {
		// reachability: hypotheses plus path condition must be satisfiable
		b.WriteString("(assert " + mkNot(o.Goal) + ")\n")
	} else {
		b.WriteString("(assert (not " + o.Goal + "))\n")
	}
	b.WriteString("(check-sat)\n(get-model)\n")
	return b.String()
}

// pure parameter binding for spec functions and lemmas
func (e *Exec) pureParams(params []ParamDef, prefix string, env *SpecEnv, declareConsts bool) (map[string]boundVar, []string) {
	return e.pureParamsL(params, prefix, env, declareConsts, nil)
}

func (e *Exec) pureParamsL(params []ParamDef, prefix string, env *SpecEnv, declareConsts bool, fn *SpecFn) (map[string]boundVar, []string) {
	names := map[string]boundVar{}
	var binders []string
	for _, p := range params {
		t := e.resolveType(p.Type, env)
		if t == nil {
			e.fail("unknown parameter type for %s", p.Name)
			continue
		}
		n := prefix + p.Name
		if kindOf(t) == kSlice {
			es := SInt
			if kindOf(elemType(t)) == kBool {
				es = SBool
			}
			names[p.Name] = boundVar{ArrSliceV{n + ".A", n + ".off", n + ".len", es, ""}, t}
			binders = append(binders, fmt.Sprintf("(%s.A %s)", n, arrSort(es)), fmt.Sprintf("(%s.off Int)", n))
			if fn == nil || fn.usesLen(p.Name) {
				binders = append(binders, fmt.Sprintf("(%s.len Int)", n))
			}
			if declareConsts {
				e.declare(n+".A", arrSort(es))
				e.declare(n+".off", SInt)
				e.declare(n+".len", SInt)
			}
		} else {
			s := sortOfType(t)
			names[p.Name] = boundVar{SV{n, s}, t}
			binders = append(binders, fmt.Sprintf("(%s %s)", n, s))
			if declareConsts {
				e.declare(n, s)
			}
		}
	}
	return names, binders
}

func (e *Exec) specFnDefs() string {
	if e.sf == nil {
		return ""
	}
	// all defined spec fns of the file, in dependency-free textual order (definitions may reference each other
	// only backwards, recursive ones themselves)
	var names []string
	for n := range e.sf.Fns {
		names = append(names, n)
	}
	// global spec fns (from /verif/specs) are defined only where they are used: their types need not even
	// resolve in packages that never mention them
	pe := newExec(e.g, e.pkg)
	pe.sf = e.sf
	pe.fi = e.fi
	used := map[string]bool{}
	for n := range e.usedFns {
		used[n] = true
	}
	for changed := true; changed; {
		changed = false
		for n, f := range e.g.globalFns {
			if !used[n] || f.Body == nil {
				continue
			}
			probe := newExec(e.g, e.pkg)
			probe.sf, probe.fi = e.sf, e.fi
			env := &SpecEnv{pure: true, names: map[string]boundVar{}, pkg: e.pkg, sf: e.sf}
			nm, _ := probe.pureParamsL(f.Params, "p.", env, false, f)
			probe.evalSpec(f.Body.Expr, env.with(nm))
			for u := range probe.usedFns {
				if !used[u] {
					used[u] = true
					changed = true
				}
			}
		}
	}
	for n, f := range e.g.globalFns {
		if _, dup := e.sf.Fns[n]; !dup && f.Body != nil && used[n] {
			names = append(names, n)
		}
	}
	sort.Strings(names)
	var b strings.Builder
	for _, n := range names {
		fn := e.sf.Fns[n]
		if fn == nil {
			fn = e.g.globalFns[n]
		}
		if fn.Body == nil {
			continue
		}
		env := &SpecEnv{pure: true, names: map[string]boundVar{}, pkg: e.pkg, sf: e.sf}
		nm, binders := pe.pureParamsL(fn.Params, "p.", env, false, fn)
		env = env.with(nm)
		v, _ := pe.evalSpec(fn.Body.Expr, env)
		rt := pe.resolveType(fn.Result, env)
		kw := "define-fun"
		if fn.Recursive {
			kw = "define-fun-rec"
		}
		body := ""
		if sv, ok := v.(SV); ok {
			body = sv.T
		}
		fmt.Fprintf(&b, "(%s sf.%s (%s) %s %s)\n", kw, fn.Name, strings.Join(binders, " "), sortOfType(rt), body)
	}
	if len(pe.errs) > 0 {
		e.errs = append(e.errs, pe.errs...)
	}
	return b.String()
}

func (e *Exec) lemmaAxioms() string {
	if e.sf == nil {
		return ""
	}
	var uses []string
	if e.contract != nil {
		uses = e.contract.Uses
	}
	uses = append(uses, e.extraUses...)
	var b strings.Builder
	for _, ln := range uses {
		l := e.sf.Lemmas[ln]
		if l == nil {
			e.fail("unknown lemma %s", ln)
			continue
		}
		pe := newExec(e.g, e.pkg)
		pe.sf = e.sf
		pe.fi = e.fi
		env := &SpecEnv{pure: true, names: map[string]boundVar{}, pkg: e.pkg, sf: e.sf}
		nm, binders := pe.pureParams(l.Params, "q.", env, false)
		env = env.with(nm)
		var rs, es []string
		for _, r := range l.Requires {
			rs = append(rs, pe.specBool(r, env))
		}
		for _, en := range l.Ensures {
			es = append(es, pe.specBool(en, env))
		}
		body := mkImp(mkAnd(rs...), mkAnd(es...))
		if len(l.Patterns) > 0 {
			var pats []string
			for _, p := range l.Patterns {
				v, _ := pe.evalSpec(p.Expr, env)
				if sv, ok := v.(SV); ok {
					pats = append(pats, sv.T)
				}
			}
			body = fmt.Sprintf("(! %s :pattern (%s))", body, strings.Join(pats, " "))
		}
		fmt.Fprintf(&b, "(assert (forall (%s) %s))\n", strings.Join(binders, " "), body)
		e.trusted["lemma "+ln+" (proved separately by induction, obligation lemma "+ln+"/*)"] = true
	}
	return b.String()
}

func lemmaObligations(g *Gen, pkg interface{ }, sf *SpecFile, l *Lemma) *Exec {
	p := g.pkgs[sf.Pkg]
	e := newExec(g, p)
	e.sf = sf
	e.fnName = p.Types.Name() + ".lemma " + l.Name
	e.extraUses = l.Uses
	env := &SpecEnv{pure: true, names: map[string]boundVar{}, pkg: p, sf: sf}
	nm, _ := e.pureParams(l.Params, "L.", env, true)
	env = env.with(nm)
	var rs, es []string
	for _, r := range l.Requires {
		rs = append(rs, e.specBool(r, env))
	}
	for _, en := range l.Ensures {
		es = append(es, e.specBool(en, env))
	}
	goal := mkImp(mkAnd(rs...), mkAnd(es...))
	clause := fmt.Sprintf("lemma %s", l.Name)
	if l.Induction == "" {
		o := e.oblige("direct", "lemma", clause, goal)
		_ = o
		return e
	}
	iv0, ok := nm[l.Induction]
	if !ok || l.Base == nil {
		e.fail("lemma %s: induction variable or base condition missing", l.Name)
		return e
	}
	base := e.specBool(*l.Base, env)
	// induction hypothesis: the statement at x-1
	ihNames := map[string]boundVar{}
	for k, v := range nm {
		ihNames[k] = v
	}
	x := iv0.V.(SV)
	ihNames[l.Induction] = boundVar{SV{mkSub(x.T, "1"), SInt}, iv0.T}
	ihEnv := env.with(ihNames)
	var rs2, es2 []string
	for _, r := range l.Requires {
		rs2 = append(rs2, e.specBool(r, ihEnv))
	}
	for _, en := range l.Ensures {
		es2 = append(es2, e.specBool(en, ihEnv))
	}
	ih := mkImp(mkAnd(rs2...), mkAnd(es2...))
	e.oblige("base", "lemma", clause+" (base: "+l.Base.Text+")", mkImp(base, goal))
	e.oblige("step", "lemma", clause+" (step, induction on "+l.Induction+")", mkImp(mkAnd(mkNot(base), ih), goal))
	return e
}

// ---- model projection ---------------------------------------------------------------

var defineFunRe = regexp.MustCompile(`\(define-fun ([^ ]+) \(\) (Int|Bool)\s+([^\n]+?)\)\s*$`)

// projectModel extracts the values of the function's inputs from a solver model.
func (e *Exec) projectModel(model string) map[string]string {
	vals := map[string]string{}
	lines := strings.Split(model, "\n")
	for i := 0; i < len(lines); i++ {
		ln := strings.TrimSpace(lines[i])
		if strings.HasPrefix(ln, "(define-fun ") && !strings.HasSuffix(ln, ")") && i+1 < len(lines) {
			ln = ln + " " + strings.TrimSpace(lines[i+1])
		}
		if m := defineFunRe.FindStringSubmatch(ln); m != nil {
			vals[m[1]] = strings.TrimSpace(m[3])
		}
	}
	out := map[string]string{}
	if len(e.frames) == 0 {
		return vals
	}
	// inputs: entry values of parameters; plus everything named like an input
	for name, v := range e.frames[0].entry {
		switch x := v.(type) {
		case SV:
			if mv, ok := vals[x.T]; ok {
				out[name] = mv
			}
		case SliceV:
			for _, p := range []struct{ n, t string }{{"base", x.Base}, {"off", x.Off}, {"len", x.Len}} {
				if mv, ok := vals[p.t]; ok {
					out[name+"."+p.n] = mv
				}
			}
		}
	}
	out["$model"] = truncate(model, 20000)
	return out
}

func truncate(s string, n int) string {
	if len(s) > n {
		return s[:n] + "...(truncated)"
	}
	return s
}

var _ = types.Typ

var recDefRe = regexp.MustCompile(`^\(define-fun-rec (\S+) \((.*?)\) (Int|Bool) `)

func uninterpretRec(defs string) string {
	var out []string
	for _, ln := range strings.Split(defs, "\n") {
		if strings.HasPrefix(ln, "(define-fun-rec ") {
			// (define-fun-rec name ((a S) (b T)) R body)
			rest := ln[len("(define-fun-rec "):]
			sp := strings.IndexByte(rest, ' ')
			name := rest[:sp]
			rest = rest[sp+1:]
			end := matchParen(rest, 0)
			params := rest[1:end]
			after := strings.TrimSpace(rest[end+1:])
			res := after[:strings.IndexByte(after, ' ')]
			var sorts []string
			for i := 0; i < len(params); i++ {
				if params[i] == '(' {
					j := matchParen(params, i)
					inner := params[i+1 : j]
					sorts = append(sorts, strings.TrimSpace(inner[strings.IndexByte(inner, ' ')+1:]))
					i = j
				}
			}
			out = append(out, fmt.Sprintf("(declare-fun %s (%s) %s)", name, strings.Join(sorts, " "), res))
			continue
		}
		out = append(out, ln)
	}
	return strings.Join(out, "\n")
}

var fmu sync.Mutex

func atomicAddF(p *float64, v float64) {
	fmu.Lock()
	*p += v
	fmu.Unlock()
}

func sizeOf(xs []*Sx) int {
	n := 0
	for _, x := range xs {
		n += len(x.String())
	}
	return n
}
