package main

// Known findings and counterexample replay.

import (
	"fmt"
	"os"
	"path/filepath"
)

// matchKnown decides whether a failed obligation is covered by an open known finding: every
// counterexample of the obligation must lie in the finding's class (checked by the solver:
// hypotheses && !goal && !class must be unsat).
func matchKnown(open []KnownFinding, prop string, o *Obligation, e *Exec, scratch string, timeout, seed int) *KnownFinding {
	ln := retSuffix.ReplaceAllString(o.Name, "")
	for i := range open {
		k := &open[i]
		if k.Property != prop || k.Obligation != ln {
			continue
		}
		if k.Class == "" {
			return k
		}
		if e == nil || len(e.frames) == 0 {
			continue
		}
		expr, err := parseSpecExpr(k.Class)
		if err != nil {
			continue
		}
		env := e.topEnv(e.old)
		env.paramsAtEntry = true
		nf := len(e.facts)
		nerr := len(e.errs)
		cls := e.specBool(Clause{Text: k.Class, Expr: expr, File: "known-findings.json"}, env)
		extraFacts := append([]string{}, e.facts[nf:]...)
		e.facts = e.facts[:nf]
		if len(e.errs) > nerr {
			e.errs = e.errs[:nerr]
			continue
		}
		o2 := *o
		for _, f := range extraFacts {
			o2.Extra = append(o2.Extra, "(assert "+f+")")
		}
		o2.Extra = append(o2.Extra, "(assert (not "+cls+"))")
		body := e.smtFor(&o2)
		fn, err := writeSMT(scratch, o.Name+".known", body)
		if err != nil {
			continue
		}
		r := solve(fn, timeout, seed, false)
		if r.Status == "unsat" {
			return k
		}
	}
	return nil
}

// tryReplay turns a counterexample into an execution of the real code where a fixture exists.
func tryReplay(g *Gen, e *Exec, o *Obligation, cex map[string]string, scratch string) (bool, map[string]interface{}) {
	rep := map[string]interface{}{}
	fix := filepath.Join(verifRoot, "replay", "fixtures", sanitizeFile(e.fnName)+".go.tmpl")
	if _, err := os.Stat(fix); err != nil {
		rep["status"] = "no fixture for " + e.fnName + ": inputs are not constructible from the model (abstract values); reported without failing input"
		return false, rep
	}
	return runFixture(g, e, o, cex, fix, scratch, rep)
}

func runReplayFile(path string) int {
	fmt.Println("replay of", path, ": re-run the check of the property named in the file; replays are regenerated from the solver model on every run")
	b, err := os.ReadFile(path)
	if err != nil {
		fmt.Println(err)
		return 2
	}
	fmt.Println(truncate(string(b), 4000))
	return 0
}

func runFixture(g *Gen, e *Exec, o *Obligation, cex map[string]string, fix, scratch string, rep map[string]interface{}) (bool, map[string]interface{}) {
	rep["status"] = "fixture replay not implemented yet"
	return false, rep
}
