package main

// Known findings and counterexample replay against the real code.
//
// Replay: a fixture (/verif/replay/fixtures/<function>.json) names the inputs of the function as
// specification expressions over the entry state, Go code that builds that state from concrete values,
// calls the real function and prints observable outputs, and the outputs as specification expressions
// over the final state. The solver is asked for the values of the inputs in its counterexample
// (get-value); the Go code is run with `go test -overlay` (nothing is written into the repository); the
// violated clause is then evaluated by the solver with inputs and observed outputs pinned. If it cannot
// hold, the violation is confirmed on the real code.

import (
	"encoding/json"
	"fmt"
	"os"
	"os/exec"
	"path/filepath"
	"regexp"
	"sort"
	"strings"
)

// matchKnown decides whether a failed obligation is covered by an open known finding: every
// counterexample of the obligation must lie in the finding's class (checked by the solver:
// hypotheses && !goal && !class must be unsat).
func matchKnown(open []KnownFinding, prop string, o *Obligation, e *Exec, scratch string, timeout, seed int) *KnownFinding {
	ln := retSuffix.ReplaceAllString(o.Name, "")
	for i := range open {
		k := &open[i]
		if k.Property != prop || k.Obligation != ln {
			continue
		}
		if k.Class == "" {
			return k
		}
		if e == nil || len(e.frames) == 0 {
			continue
		}
		expr, err := parseSpecExpr(k.Class)
		if err != nil {
			continue
		}
		env := e.topEnv(e.old)
		env.paramsAtEntry = true
		nf := len(e.facts)
		nerr := len(e.errs)
		cls := e.specBool(Clause{Text: k.Class, Expr: expr, File: "known-findings.json"}, env)
		extraFacts := append([]string{}, e.facts[nf:]...)
		e.facts = e.facts[:nf]
		if len(e.errs) > nerr {
			e.errs = e.errs[:nerr]
			continue
		}
		o2 := *o
		for _, f := range extraFacts {
			o2.Extra = append(o2.Extra, "(assert "+f+")")
		}
		o2.Extra = append(o2.Extra, "(assert (not "+cls+"))")
		body := e.smtFor(&o2)
		fn, err := writeSMT(scratch, o.Name+".known", body)
		if err != nil {
			continue
		}
		r := solve(fn, timeout, seed, false)
		if r.Status == "unsat" {
			return k
		}
	}
	return nil
}

type Fixture struct {
	PackageDir string                       `json:"package_dir"`
	Inputs     map[string]string            `json:"inputs"`
	Slices     map[string]FixtureSlice      `json:"slices"`
	Imports    []string                     `json:"imports"`
	Go         []string                     `json:"go"`
	Outputs    map[string]string            `json:"outputs"`
	Helpers    []string                     `json:"helpers"`
}

type FixtureSlice struct {
	Expr string `json:"expr"`
	Max  int    `json:"max"`
	Type string `json:"type"` // Go element type
}

func fixturePath(fnName string) string {
	return filepath.Join(verifRoot, "replay", "fixtures", sanitizeFile(fnName)+".json")
}

func smtToGo(v string) string {
	v = strings.TrimSpace(v)
	if strings.HasPrefix(v, "(- ") && strings.HasSuffix(v, ")") {
		return "-" + strings.TrimSpace(v[3:len(v)-1])
	}
	return v
}

var outLine = regexp.MustCompile(`VERIF-OUT ([A-Za-z0-9_]+)=(.*)`)

// tryReplay turns a counterexample into an execution of the real code where a fixture exists.
func tryReplay(g *Gen, e *Exec, o *Obligation, cex map[string]string, scratch string) (bool, map[string]interface{}) {
	rep := map[string]interface{}{}
	fp := fixturePath(e.fnName)
	var fx Fixture
	if err := loadJSON(fp, &fx); err != nil {
		rep["status"] = "no fixture for " + e.fnName + ": inputs are not constructible from the model (abstract values); reported without failing input"
		return false, rep
	}
	if o.Kind != "post" || o.postSt == nil {
		rep["status"] = "replay is implemented for postconditions only"
		return false, rep
	}
	// 1. input terms
	env := e.topEnv(e.old)
	env.paramsAtEntry = true
	env.cur = e.old
	nf, nerr := len(e.facts), len(e.errs)
	type inTerm struct{ name, term, sort string }
	var ins []inTerm
	var names []string
	for n := range fx.Inputs {
		names = append(names, n)
	}
	sort.Strings(names)
	evalScalar := func(text string, env *SpecEnv) (string, string, bool) {
		x, err := parseSpecExpr(text)
		if err != nil {
			return "", "", false
		}
		v, _ := e.evalSpec(x, env)
		sv, ok := v.(SV)
		if !ok {
			return "", "", false
		}
		return sv.T, sv.S, true
	}
	for _, n := range names {
		t, s, ok := evalScalar(fx.Inputs[n], env)
		if !ok {
			rep["status"] = "fixture input " + n + " does not evaluate to a scalar"
			e.facts, e.errs = e.facts[:nf], e.errs[:nerr]
			return false, rep
		}
		ins = append(ins, inTerm{n, t, s})
	}
	var snames []string
	for n := range fx.Slices {
		snames = append(snames, n)
	}
	sort.Strings(snames)
	for _, n := range snames {
		sl := fx.Slices[n]
		t, s, ok := evalScalar("len("+sl.Expr+")", env)
		if !ok {
			rep["status"] = "fixture slice " + n + " has no length"
			e.facts, e.errs = e.facts[:nf], e.errs[:nerr]
			return false, rep
		}
		ins = append(ins, inTerm{n + ".len", t, s})
		for i := 0; i < sl.Max; i++ {
			t, s, ok := evalScalar(fmt.Sprintf("(%s)[%d]", sl.Expr, i), env)
			if ok {
				ins = append(ins, inTerm{fmt.Sprintf("%s.%d", n, i), t, s})
			}
		}
	}
	inputFacts := append([]string{}, e.facts[nf:]...)
	e.facts, e.errs = e.facts[:nf], e.errs[:nerr]
	// 2. values from the solver
	o2 := *o
	for _, f := range inputFacts {
		o2.Extra = append(o2.Extra, "(assert "+f+")")
	}
	body := e.smtFor(&o2)
	var terms []string
	for _, it := range ins {
		terms = append(terms, it.term)
	}
	body = strings.Replace(body, "(get-model)", "(get-value ("+strings.Join(terms, " ")+"))", 1)
	fn, _ := writeSMT(scratch, o.Name+".values", body)
	vals := map[string]string{}
	got := false
	for _, sd := range solvers {
		r := runOne(contextBG(), sd, fn, 20, 0)
		if r.Status != "sat" {
			continue
		}
		sx := parseSx("(" + r.Model + ")")
		if len(sx.L) == 0 || len(sx.L[0].L) != len(ins) {
			continue
		}
		for i, pair := range sx.L[0].L {
			if len(pair.L) == 2 {
				vals[ins[i].name] = pair.L[1].String()
			}
		}
		got = true
		break
	}
	if !got {
		rep["status"] = "could not obtain input values from the solver"
		return false, rep
	}
	rep["inputs"] = vals
	// 3. render the Go test
	code := strings.Join(fx.Go, "\n")
	for _, n := range snames {
		sl := fx.Slices[n]
		ln := 0
		fmt.Sscanf(smtToGo(vals[n+".len"]), "%d", &ln)
		if ln > sl.Max || ln < 0 {
			rep["status"] = fmt.Sprintf("counterexample needs a slice of length %d (> fixture bound %d): not constructible", ln, sl.Max)
			return false, rep
		}
		var elems []string
		for i := 0; i < ln; i++ {
			elems = append(elems, smtToGo(vals[fmt.Sprintf("%s.%d", n, i)]))
		}
		code = strings.ReplaceAll(code, "$"+n, fmt.Sprintf("[]%s{%s}", sl.Type, strings.Join(elems, ", ")))
	}
	// longest names first so that $ab is not clobbered by $a
	sort.Slice(names, func(i, j int) bool { return len(names[i]) > len(names[j]) })
	for _, n := range names {
		code = strings.ReplaceAll(code, "$"+n, smtToGo(vals[n]))
	}
	pkgName := e.fi.pkg.Types.Name()
	var src strings.Builder
	fmt.Fprintf(&src, "package %s\n\nimport (\n\t\"fmt\"\n\t\"testing\"\n", pkgName)
	for _, im := range fx.Imports {
		fmt.Fprintf(&src, "\t%s\n", im)
	}
	src.WriteString(")\n\nvar _ = fmt.Sprint\n\n")
	for _, h := range fx.Helpers {
		src.WriteString(h + "\n")
	}
	src.WriteString("func TestVerifReplayZZ(t *testing.T) {\n\tout := func(name string, v interface{}) { fmt.Printf(\"VERIF-OUT %s=%v\\n\", name, v) }\n\t_ = out\n")
	src.WriteString(code)
	src.WriteString("\n}\n")
	repo := os.Getenv("VERIF_REPO")
	if repo == "" {
		repo = "/repo"
	}
	testFile := filepath.Join(scratch, sanitizeFile(o.Name)+"_replay_test.go")
	os.WriteFile(testFile, []byte(src.String()), 0o644)
	ov := map[string]map[string]string{"Replace": {filepath.Join(repo, fx.PackageDir, "zz_verif_replay_test.go"): testFile}}
	ovb, _ := json.Marshal(ov)
	ovFile := filepath.Join(scratch, sanitizeFile(o.Name)+"_overlay.json")
	os.WriteFile(ovFile, ovb, 0o644)
	cmd := exec.Command("go", "test", "-overlay", ovFile, "-vet=off", "-timeout", "60s", "-count=1", "-v", "-run", "^TestVerifReplayZZ$", "./"+fx.PackageDir)
	cmd.Dir = repo
	outb, err := cmd.CombinedOutput()
	rep["go_test"] = truncate(string(outb), 3000)
	rep["go_source"] = src.String()
	observed := map[string]string{}
	for _, m := range outLine.FindAllStringSubmatch(string(outb), -1) {
		observed[m[1]] = strings.TrimSpace(m[2])
	}
	if len(observed) == 0 {
		rep["status"] = fmt.Sprintf("replay did not run to completion (%v)", err)
		return false, rep
	}
	rep["observed"] = observed
	// 4. evaluate the clause with inputs and outputs pinned
	penv := e.topEnv(o.postSt)
	penv.paramsAtEntry = true
	e.resultNames(penv, e.frames[0], o.postSt)
	nf, nerr = len(e.facts), len(e.errs)
	var pins []string
	for _, it := range ins {
		if v, ok := vals[it.name]; ok {
			pins = append(pins, mkEq(it.term, v))
		}
	}
	var onames []string
	for n := range fx.Outputs {
		onames = append(onames, n)
	}
	sort.Strings(onames)
	for _, n := range onames {
		ov, ok := observed[n]
		if !ok {
			continue
		}
		t, s, ok := evalScalar(fx.Outputs[n], penv)
		if !ok {
			continue
		}
		if s == SBool {
			pins = append(pins, mkEq(t, ov))
		} else {
			pins = append(pins, mkEq(t, mkBigInt(ov)))
		}
	}
	clauseT := o.ClauseTerm
	outFacts := append([]string{}, e.facts[nf:]...)
	e.facts, e.errs = e.facts[:nf], e.errs[:nerr]
	var b strings.Builder
	b.WriteString(prelude)
	b.WriteString(e.specFnDefs())
	for _, d := range e.decls {
		if !strings.HasPrefix(d, "(assert ") {
			b.WriteString(d + "\n")
		}
	}
	_ = outFacts
	for _, p := range pins {
		b.WriteString("(assert " + p + ")\n")
	}
	b.WriteString("(assert " + clauseT + ")\n(check-sat)\n")
	cf, _ := writeSMT(scratch, o.Name+".confirm", b.String())
	r := solve(cf, 20, 0, false)
	rep["confirm_query_status"] = r.Status
	if r.Status == "unsat" {
		rep["status"] = "REPLAY-CONFIRMED: with the counterexample's inputs the real function produced outputs for which the clause is false"
		return true, rep
	}
	rep["status"] = "replay ran but did not reproduce the violation (the counterexample may live in an abstraction); reported without failing input"
	return false, rep
}

func runReplayFile(path string) int {
	b, err := os.ReadFile(path)
	if err != nil {
		fmt.Println(err)
		return 2
	}
	var d map[string]interface{}
	if err := json.Unmarshal(b, &d); err != nil {
		fmt.Println(err)
		return 2
	}
	fmt.Printf("property=%v obligation=%v\n", d["property"], d["obligation"])
	fmt.Printf("clause: %v\nreason: %v\n", d["clause"], d["reason"])
	if rp, ok := d["replay"].(map[string]interface{}); ok {
		fmt.Printf("replay status: %v\ninputs: %v\nobserved: %v\n", rp["status"], rp["inputs"], rp["observed"])
		if src, ok := rp["go_source"].(string); ok {
			// re-run the recorded Go test against the current tree
			repo := os.Getenv("VERIF_REPO")
			if repo == "" {
				repo = "/repo"
			}
			dir, _ := os.MkdirTemp("", "vreplay-")
			defer os.RemoveAll(dir)
			tf := filepath.Join(dir, "replay_test.go")
			os.WriteFile(tf, []byte(src), 0o644)
			pkgDir, _ := d["package_dir"].(string)
			if pkgDir != "" {
				ov := map[string]map[string]string{"Replace": {filepath.Join(repo, pkgDir, "zz_verif_replay_test.go"): tf}}
				ovb, _ := json.Marshal(ov)
				of := filepath.Join(dir, "ov.json")
				os.WriteFile(of, ovb, 0o644)
				cmd := exec.Command("go", "test", "-overlay", of, "-vet=off", "-timeout", "60s", "-count=1", "-v", "-run", "^TestVerifReplayZZ$", "./"+pkgDir)
				cmd.Dir = repo
				out, _ := cmd.CombinedOutput()
				fmt.Println(string(out))
			}
		}
	}
	return 0
}
