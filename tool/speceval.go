package main

// Evaluation of specification expressions.

import (
	"fmt"
	"go/ast"
	"go/constant"
	"go/token"
	"go/types"
	"strconv"
	"strings"

	"golang.org/x/tools/go/packages"
)

// ArrSliceV is a slice in a pure context (spec function bodies, lemma statements): an SMT array plus window.
type ArrSliceV struct {
	Arr, Off, Len string
	Elem          string // element sort
	Base          string // base reference if known ("" otherwise)
}

type SpecEnv struct {
	cur, old *State
	names    map[string]boundVar
	pkg      *packages.Package
	sf       *SpecFile
	scopePos token.Pos // position for function-scope lookups (0: none)
	entry    map[string]Val // entry values of parameters (for old(x) and ensures)
	entryT   map[string]types.Type
	paramsAtEntry bool
	inOld    bool
	site     *siteCtx
	pure     bool // no program state available
	lenientLocals bool // a local that is not bound on this path reads as an arbitrary value
	prev     *State // state at the start of the current loop iteration (for prev(e) in iteration clauses)
	prevNow  *State // inside prev(e): the current state (a variable bound during the iteration, e.g. the loop's own range variables, denotes its current value)
}

type siteCtx struct {
	args []Val
	argT []types.Type
	name string
	k    int
}

func (env *SpecEnv) with(names map[string]boundVar) *SpecEnv {
	n := *env
	n.names = map[string]boundVar{}
	for k, v := range env.names {
		n.names[k] = v
	}
	for k, v := range names {
		n.names[k] = v
	}
	return &n
}

var untypedInt = types.Typ[types.UntypedInt]
var tBool = types.Typ[types.Bool]
var tInt = types.Typ[types.Int]

func (e *Exec) specBool(c Clause, env *SpecEnv) string {
	v, _ := e.evalSpec(c.Expr, env)
	sv, ok := v.(SV)
	if !ok || sv.S != SBool {
		e.fail("%s:%d: clause is not boolean: %s", c.File, c.Line, c.Text)
		return tTrue
	}
	return sv.T
}

// evalSpec evaluates a spec expression. Program state is read from env.cur (or env.old inside old()).
func (e *Exec) evalSpec(x ast.Expr, env *SpecEnv) (Val, types.Type) {
	saved := e.st
	if !env.pure {
		if env.inOld && env.old != nil {
			e.st = env.old
		} else if env.cur != nil {
			e.st = env.cur
		}
	}
	// facts generated while reading the heap must not be guarded by a foreign pc
	defer func() { e.st = saved }()
	return e.evalSpec1(x, env)
}

func (e *Exec) specErr(format string, a ...interface{}) (Val, types.Type) {
	e.fail("spec: "+format, a...)
	return bv(tTrue), tBool
}

func (e *Exec) evalSpec1(x ast.Expr, env *SpecEnv) (Val, types.Type) {
	switch x := x.(type) {
	case *ast.ParenExpr:
		return e.evalSpec1(x.X, env)
	case *ast.BasicLit:
		switch x.Kind {
		case token.INT:
			v := constant.MakeFromLiteral(x.Value, token.INT, 0)
			return iv(mkBigInt(v.ExactString())), untypedInt
		case token.STRING:
			s, _ := strconv.Unquote(x.Value)
			id := e.g.strID(s)
			e.addFact(mkEq(sx("strlen", mkInt(int64(id))), mkInt(int64(len(s)))))
			e.strLitBytes(id, s)
			return iv(mkInt(int64(id))), types.Typ[types.String]
		case token.CHAR:
			s, _ := strconv.Unquote(x.Value)
			return iv(mkInt(int64([]rune(s)[0]))), untypedInt
		}
	case *ast.Ident:
		return e.specIdent(x, env)
	case *ast.SelectorExpr:
		return e.specSelector(x, env)
	case *ast.StarExpr:
		v, t := e.evalSpec1(x.X, env)
		if p, ok := t.Underlying().(*types.Pointer); ok {
			return e.deref(v, p.Elem()), p.Elem()
		}
		return v, t
	case *ast.UnaryExpr:
		v, t := e.evalSpec1(x.X, env)
		switch x.Op {
		case token.NOT:
			return bv(mkNot(e.asBool(v))), tBool
		case token.SUB:
			return iv(mkSub("0", e.asInt(v))), t
		case token.ADD:
			return v, t
		case token.AND:
			if kindOf(t) == kStruct {
				return v, types.NewPointer(t)
			}
		}
		return e.specErr("unsupported unary operator %s", x.Op)
	case *ast.BinaryExpr:
		return e.specBinary(x, env)
	case *ast.IndexExpr:
		b, bt := e.evalSpec1(x.X, env)
		i, _ := e.evalSpec1(x.Index, env)
		switch s := b.(type) {
		case ArrSliceV:
			et := elemType(bt)
			r := mkSelect(s.Arr, mkAdd(s.Off, e.asInt(i)))
			if s.Elem == SBool {
				return bv(r), et
			}
			if et != nil && kindOf(et) == kSlice {
				return e.handleSlice(r), et // element of a slice of slices: decode the handle
			}
			return iv(r), et
		case SliceV:
			return e.readElem(s, e.asInt(i), elemType(bt)), elemType(bt)
		case SV:
			if m, ok := bt.Underlying().(*types.Map); ok {
				return e.mapRead(s.T, e.mapKey(i, m.Key()), m.Elem()), m.Elem()
			}
			if bt != nil && kindOf(bt) == kString {
				// s[i] on a string: the same term the program-side indexing produces
				e.declareFun("strat", []string{SInt, SInt}, SInt)
				r := sx("strat", s.T, e.asInt(i))
				e.addFact(mkAnd(sx("<=", "0", r), sx("<=", r, "255")))
				return iv(r), types.Typ[types.Byte]
			}
		}
		return e.specErr("unsupported index base of type %s", bt)
	case *ast.SliceExpr:
		b, bt := e.evalSpec1(x.X, env)
		lo, hi := "0", ""
		if x.Low != nil {
			v, _ := e.evalSpec1(x.Low, env)
			lo = e.asInt(v)
		}
		if x.High != nil {
			v, _ := e.evalSpec1(x.High, env)
			hi = e.asInt(v)
		}
		switch s := b.(type) {
		case ArrSliceV:
			if hi == "" {
				hi = s.Len
			}
			return ArrSliceV{s.Arr, mkAdd(s.Off, lo), mkSub(hi, lo), s.Elem, s.Base}, bt
		case SliceV:
			if hi == "" {
				hi = s.Len
			}
			return SliceV{s.Base, mkAdd(s.Off, lo), mkSub(hi, lo), mkSub(s.Cap, lo)}, bt
		}
		return e.specErr("unsupported slice base of type %s", bt)
	case *ast.CallExpr:
		return e.specCall(x, env)
	}
	return e.specErr("unsupported expression %T", x)
}

var specConsts = map[string]string{
	"MaxInt64": "9223372036854775807", "MinInt64": "(- 9223372036854775808)",
	"MaxInt": "9223372036854775807", "MinInt": "(- 9223372036854775808)",
	"MaxUint16": "65535", "MaxUint8": "255", "MaxInt32": "2147483647", "MaxUint32": "4294967295",
}

// curName maps a variable name used in a contract to the name the variable has now, when the function's locals were
// only renamed since the lock was taken (Gen.renames); names that still resolve are returned unchanged.
func (e *Exec) curName(name string, env *SpecEnv) string {
	if e.fi == nil || e.g.renames == nil {
		return name
	}
	alts := e.g.renames[e.fi][name]
	if len(alts) == 0 {
		return name
	}
	resolves := func(n string) bool {
		if env.entry != nil {
			if _, ok := env.entry[n]; ok {
				return true
			}
		}
		if env.scopePos != 0 && env.pkg != nil {
			if sc := env.pkg.Types.Scope().Innermost(env.scopePos); sc != nil {
				if _, obj := sc.LookupParent(n, env.scopePos); obj != nil {
					if v, ok := obj.(*types.Var); ok && v.Parent() != env.pkg.Types.Scope() {
						return true
					}
				}
			}
		}
		return false
	}
	if resolves(name) {
		return name
	}
	for _, a := range alts {
		if resolves(a) {
			e.warn("contract name %s rebound to renamed variable %s", name, a)
			return a
		}
	}
	if len(alts) == 1 {
		return alts[0]
	}
	return name
}

func (e *Exec) specIdent(id *ast.Ident, env *SpecEnv) (Val, types.Type) {
	name := id.Name
	if b, ok := env.names[name]; ok {
		return b.V, b.T
	}
	name = e.curName(name, env)
	switch name {
	case "nil":
		return iv("0"), types.Typ[types.UntypedNil]
	case "true":
		return bv(tTrue), tBool
	case "false":
		return bv(tFalse), tBool
	}
	if c, ok := specConsts[name]; ok {
		return iv(c), untypedInt
	}
	if env.sf != nil {
		if c, ok := env.sf.Consts[name]; ok {
			return e.evalSpec1(c.Expr, env)
		}
	}
	// parameters at entry
	if (env.paramsAtEntry || env.inOld) && env.entry != nil {
		if v, ok := env.entry[name]; ok {
			return v, env.entryT[name]
		}
	}
	// function-scope variable
	if env.scopePos != 0 && env.pkg != nil {
		if sc := env.pkg.Types.Scope().Innermost(env.scopePos); sc != nil {
			if _, obj := sc.LookupParent(name, env.scopePos); obj != nil {
				switch o := obj.(type) {
				case *types.Var:
					if o.Parent() == env.pkg.Types.Scope() {
						return e.globalVar(o), o.Type()
					}
					st := env.cur
					if env.inOld && env.old != nil {
						st = env.old
					}
					if st != nil {
						if v, ok := st.vars[o]; ok {
							return v, o.Type()
						}
					}
					if env.inOld && env.cur != nil && st != env.cur {
						// a local that did not exist in the old state: inside old() it denotes its current value
						// (old(m[k]) with a local key k reads the old map at the current key)
						if v, ok := env.cur.vars[o]; ok {
							return v, o.Type()
						}
					}
					if env.prevNow != nil {
						if v, ok := env.prevNow.vars[o]; ok {
							return v, o.Type()
						}
					}
					if env.entry != nil {
						if v, ok := env.entry[name]; ok {
							return v, env.entryT[name]
						}
					}
					if env.lenientLocals {
						return e.havocVal("unbound."+name, o.Type()), o.Type()
					}
					return e.specErr("variable %s is not bound at this point", name)
				case *types.Const:
					return e.constVal(o.Val(), o.Type()), o.Type()
				}
			}
		}
	}
	if env.pkg != nil {
		if obj := env.pkg.Types.Scope().Lookup(name); obj != nil {
			switch o := obj.(type) {
			case *types.Const:
				return e.constVal(o.Val(), o.Type()), o.Type()
			case *types.Var:
				return e.globalVar(o), o.Type()
			}
		}
	}
	return e.specErr("unknown identifier %s", name)
}

func (e *Exec) findImport(env *SpecEnv, name string) *types.Package {
	if env.pkg == nil {
		return nil
	}
	for _, imp := range env.pkg.Types.Imports() {
		if imp.Name() == name {
			return imp
		}
	}
	// import aliases: search files
	for _, f := range env.pkg.Syntax {
		for _, is := range f.Imports {
			if is.Name != nil && is.Name.Name == name {
				p, _ := strconv.Unquote(is.Path.Value)
				if ip, ok := e.g.pkgs[p]; ok {
					return ip.Types
				}
			}
		}
	}
	// any loaded package with that name (spec convenience)
	for _, p := range e.g.pkgs {
		if p.Types != nil && p.Types.Name() == name && strings.HasPrefix(p.PkgPath, modPath) {
			return p.Types
		}
	}
	for _, p := range e.g.pkgs {
		if p.Types != nil && p.Types.Name() == name {
			return p.Types
		}
	}
	return nil
}

func (e *Exec) resolveType(x ast.Expr, env *SpecEnv) types.Type {
	switch t := x.(type) {
	case *ast.Ident:
		if obj := types.Universe.Lookup(t.Name); obj != nil {
			if tn, ok := obj.(*types.TypeName); ok {
				return tn.Type()
			}
		}
		if env.pkg != nil {
			if obj := env.pkg.Types.Scope().Lookup(t.Name); obj != nil {
				if tn, ok := obj.(*types.TypeName); ok {
					return tn.Type()
				}
			}
		}
	case *ast.SelectorExpr:
		if id, ok := t.X.(*ast.Ident); ok {
			if p := e.findImport(env, id.Name); p != nil {
				if obj := p.Scope().Lookup(t.Sel.Name); obj != nil {
					if tn, ok := obj.(*types.TypeName); ok {
						return tn.Type()
					}
				}
			}
		}
	case *ast.StarExpr:
		if in := e.resolveType(t.X, env); in != nil {
			return types.NewPointer(in)
		}
	case *ast.ArrayType:
		if in := e.resolveType(t.Elt, env); in != nil {
			return types.NewSlice(in)
		}
	case *ast.MapType:
		k, v := e.resolveType(t.Key, env), e.resolveType(t.Value, env)
		if k != nil && v != nil {
			return types.NewMap(k, v)
		}
	}
	return nil
}

func (e *Exec) specSelector(x *ast.SelectorExpr, env *SpecEnv) (Val, types.Type) {
	// package-qualified name?
	if id, ok := x.X.(*ast.Ident); ok {
		if _, bound := env.names[id.Name]; !bound {
			isVar := false
			if env.scopePos != 0 && env.pkg != nil {
				if sc := env.pkg.Types.Scope().Innermost(env.scopePos); sc != nil {
					if _, obj := sc.LookupParent(id.Name, env.scopePos); obj != nil {
						if _, isPkg := obj.(*types.PkgName); !isPkg {
							isVar = true
						}
					}
				}
			}
			if env.entry != nil {
				if _, ok := env.entry[id.Name]; ok {
					isVar = true
				}
			}
			if !isVar {
				if p := e.findImport(env, id.Name); p != nil {
					if obj := p.Scope().Lookup(x.Sel.Name); obj != nil {
						switch o := obj.(type) {
						case *types.Const:
							return e.constVal(o.Val(), o.Type()), o.Type()
						case *types.Var:
							return e.globalVar(o), o.Type()
						}
					}
					return e.specErr("%s.%s is not a constant or variable", id.Name, x.Sel.Name)
				}
			}
		}
	}
	v, t := e.evalSpec1(x.X, env)
	if t == nil {
		return e.specErr("selector on untyped value")
	}
	pkg := (*types.Package)(nil)
	if env.pkg != nil {
		pkg = env.pkg.Types
	}
	// fields of unexported types of other packages: look up with the type's own package
	if n, ok := derefNamed(t); ok && n.Obj().Pkg() != nil {
		pkg = n.Obj().Pkg()
	}
	obj, idx, _ := types.LookupFieldOrMethod(t, true, pkg, x.Sel.Name)
	f, ok := obj.(*types.Var)
	if !ok {
		return e.specErr("no field %s in %s", x.Sel.Name, t)
	}
	res, rt := e.walkFields(v, t, idx)
	_ = f
	return res, rt
}

func derefNamed(t types.Type) (*types.Named, bool) {
	if p, ok := t.Underlying().(*types.Pointer); ok {
		t = p.Elem()
	}
	n, ok := t.(*types.Named)
	return n, ok
}

func (e *Exec) specBinary(x *ast.BinaryExpr, env *SpecEnv) (Val, types.Type) {
	a, ta := e.evalSpec1(x.X, env)
	b, tb := e.evalSpec1(x.Y, env)
	switch x.Op {
	case token.LAND:
		return bv(mkAnd(e.asBool(a), e.asBool(b))), tBool
	case token.LOR:
		return bv(mkOr(e.asBool(a), e.asBool(b))), tBool
	case token.EQL, token.NEQ, token.LSS, token.LEQ, token.GTR, token.GEQ:
		// pure slices: only nil comparisons make sense; compare lengths is an error
		if as, ok := a.(ArrSliceV); ok {
			if as.Base == "" {
				return e.specErr("comparison of a pure slice")
			}
			a = SliceV{Base: as.Base, Off: as.Off, Len: as.Len}
		}
		if bs, ok := b.(ArrSliceV); ok {
			if bs.Base == "" {
				return e.specErr("comparison of a pure slice")
			}
			b = SliceV{Base: bs.Base, Off: bs.Off, Len: bs.Len}
		}
		if isIface(ta) && !isIface(tb) {
			b = e.boxIfConcrete(b, tb)
		} else if isIface(tb) && !isIface(ta) {
			a = e.boxIfConcrete(a, ta)
		}
		if isNilType(ta) && tb != nil {
			ta = tb
		}
		if isNilType(tb) && ta != nil {
			tb = ta
		}
		return e.compare(x.Op, a, b, ta, tb), tBool
	}
	t := ta
	if t == untypedInt || t == nil {
		t = tb
	}
	return e.arith(x.Op, a, b, t, true), t
}

func (e *Exec) specArgs(args []ast.Expr, env *SpecEnv) ([]Val, []types.Type) {
	var vs []Val
	var ts []types.Type
	for _, a := range args {
		v, t := e.evalSpec1(a, env)
		vs = append(vs, v)
		ts = append(ts, t)
	}
	return vs, ts
}

func siteArgs(args []ast.Expr) (string, int, int, bool) {
	// (name, k[, i])
	if len(args) < 2 {
		return "", 0, 0, false
	}
	name := exprText(args[0])
	k, ok1 := intLit(args[1])
	i := 0
	ok2 := true
	if len(args) > 2 {
		i, ok2 = intLit(args[2])
	}
	return name, k, i, ok1 && ok2
}

func intLit(x ast.Expr) (int, bool) {
	if l, ok := x.(*ast.BasicLit); ok && l.Kind == token.INT {
		n, err := strconv.Atoi(l.Value)
		return n, err == nil
	}
	return 0, false
}

func (e *Exec) specCall(c *ast.CallExpr, env *SpecEnv) (Val, types.Type) {
	if id, ok := c.Fun.(*ast.Ident); ok {
		switch id.Name {
		case "$imp":
			a, _ := e.evalSpec1(c.Args[0], env)
			b, _ := e.evalSpec1(c.Args[1], env)
			return bv(mkImp(e.asBool(a), e.asBool(b))), tBool
		case "$iff":
			a, _ := e.evalSpec1(c.Args[0], env)
			b, _ := e.evalSpec1(c.Args[1], env)
			return bv(mkEq(e.asBool(a), e.asBool(b))), tBool
		case "$forall", "$exists":
			names := map[string]boundVar{}
			var binders []string
			qf := &qframe{}
			n := len(c.Args) - 1
			for i := 0; i < n; i += 2 {
				vn := c.Args[i].(*ast.Ident).Name
				t := e.resolveType(c.Args[i+1], env)
				if t == nil {
					return e.specErr("unknown type in quantifier for %s", vn)
				}
				e.n++
				sn := fmt.Sprintf("%s!q%d", vn, e.n)
				s := sortOfType(t)
				binders = append(binders, fmt.Sprintf("(%s %s)", sn, s))
				names[vn] = boundVar{SV{sn, s}, t}
				qf.names = append(qf.names, sn)
			}
			e.qstack = append(e.qstack, qf)
			body, _ := e.evalSpec1(c.Args[n], env.with(names))
			e.qstack = e.qstack[:len(e.qstack)-1]
			q := "forall"
			bt := e.asBool(body)
			// auxiliary typing facts (integer ranges, reference existence) about terms that mention the bound
			// variables are dropped: attaching them would weaken hypotheses or strengthen goals by polarity
			if id.Name == "$exists" {
				q = "exists"
			}
			return bv(fmt.Sprintf("(%s (%s) %s)", q, strings.Join(binders, " "), bt)), tBool
		case "prev":
			// prev(e): value of e when the current loop iteration started (only in `loop k iteration` clauses)
			if len(c.Args) != 1 || env.prev == nil {
				return e.specErr("prev(e) is only available in loop iteration clauses")
			}
			n := *env
			n.cur = env.prev
			n.prevNow = env.cur
			saved := e.st
			e.st = env.prev
			v, t := e.evalSpec1(c.Args[0], &n)
			if sl, ok := v.(SliceV); ok && t != nil {
				v = e.snapshotSlice(sl, t)
			}
			e.st = saved
			return v, t
		case "closure":
			// closure(k): the function value the k-th function literal of the function under contract evaluated to
			// (`callsite Dial#0 requires cfg.Verify == closure(0)`: the hook installed is this literal, whose body
			// has its own `closure k` contract)
			if len(c.Args) == 1 {
				if lit, ok := c.Args[0].(*ast.BasicLit); ok {
					if v, found := e.st.vars["closureval:"+lit.Value]; found {
						return v, tInt
					}
					return iv(e.fresh("noclosure", SInt)), tInt
				}
			}
			return e.specErr("closure(k) expected")
		case "cur":
			// cur(e) inside prev(...): e is evaluated in the current state (prev(valOf(cm, cur(cmd.peer))): the total, at the
			// start of the iteration, of the peer named by the command received during the iteration)
			if len(c.Args) != 1 || env.prevNow == nil {
				return e.specErr("cur(e) is only available inside prev(...)")
			}
			n := *env
			n.cur = env.prevNow
			n.prevNow = nil
			saved := e.st
			e.st = env.prevNow
			v, t := e.evalSpec1(c.Args[0], &n)
			e.st = saved
			return v, t
		case "old":
			if len(c.Args) != 1 {
				return e.specErr("old takes one argument")
			}
			n := *env
			n.inOld = true
			saved := e.st
			if n.old != nil && !n.pure {
				e.st = n.old
			}
			v, t := e.evalSpec1(c.Args[0], &n)
			// a slice read in the old state keeps the old contents
			if sl, ok := v.(SliceV); ok && t != nil {
				v = e.snapshotSlice(sl, t)
			}
			e.st = saved
			return v, t
		case "len", "cap":
			v, t := e.evalSpec1(c.Args[0], env)
			switch s := v.(type) {
			case ArrSliceV:
				return iv(s.Len), tInt
			case SliceV:
				if id.Name == "cap" && s.Cap != "" {
					return iv(s.Cap), tInt
				}
				return iv(s.Len), tInt
			case SV:
				if t != nil {
					if _, ok := t.Underlying().(*types.Map); ok {
						r := e.mapLen(s.T)
						e.addFact(mkEq(mkEq(r, "0"), mkEq(e.mapDom(s.T), "((as const (Array Int Bool)) false)")))
						e.addFact(sx(">=", r, "0"))
						return iv(r), tInt
					}
					if kindOf(t) == kString {
						return iv(sx("strlen", s.T)), tInt
					}
				}
			}
			return e.specErr("len of unsupported value")
		case "ite":
			cnd, _ := e.evalSpec1(c.Args[0], env)
			a, ta := e.evalSpec1(c.Args[1], env)
			b, tb := e.evalSpec1(c.Args[2], env)
			if ta == untypedInt {
				ta = tb
			}
			x, ok1 := a.(SV)
			y, ok2 := b.(SV)
			if !ok1 || !ok2 {
				return e.specErr("ite on non-scalar values")
			}
			return SV{mkIte(e.asBool(cnd), x.T, y.T), x.S}, ta
		case "has":
			m, mt := e.evalSpec1(c.Args[0], env)
			k, _ := e.evalSpec1(c.Args[1], env)
			mm, ok := mt.Underlying().(*types.Map)
			if !ok {
				return e.specErr("has: first argument is not a map")
			}
			return bv(e.mapHas(e.asInt(m), e.mapKey(k, mm.Key()))), tBool
		case "min", "max":
			a, ta := e.evalSpec1(c.Args[0], env)
			b, _ := e.evalSpec1(c.Args[1], env)
			x, y := e.asInt(a), e.asInt(b)
			if id.Name == "min" {
				return iv(mkIte(sx("<=", x, y), x, y)), ta
			}
			return iv(mkIte(sx(">=", x, y), x, y)), ta
		case "string", "strof":
			// string(b) for a byte slice: exactly the term the program-side conversion produces
			v, t := e.evalSpec1(c.Args[0], env)
			switch sl := v.(type) {
			case SliceV:
				e.declareFun("str.of", []string{SInt, SInt, SInt, SArrI}, SInt)
				key, sort := elemsKey(types.Typ[types.Byte])
				r := e.nameTerm("str", sx("str.of", sl.Base, sl.Off, sl.Len, mkSelect(e.heapGet(key, sort), sl.Base)), SInt)
				e.addFact(mkEq(sx("strlen", r), sl.Len))
				return iv(r), types.Typ[types.String]
			case ArrSliceV:
				e.declareFun("str.of", []string{SInt, SInt, SInt, SArrI}, SInt)
				b := sl.Base
				if b == "" {
					b = "0"
				}
				r := sx("str.of", b, sl.Off, sl.Len, sl.Arr)
				e.addFact(mkEq(sx("strlen", r), sl.Len))
				return iv(r), types.Typ[types.String]
			}
			return v, t
		case "visited":
			// visited(k, key): key has already been handled by map-range loop k (readable after the loop too)
			k, ok := intLit(c.Args[0])
			if !ok || len(c.Args) != 2 {
				return e.specErr("visited(k, key): k must be a loop ordinal literal")
			}
			vv, found := e.st.vars[fmt.Sprintf("$visited%d", k)].(SV)
			if !found {
				return e.specErr("visited(%d, ...): loop %d is not a map range loop that has started", k, k)
			}
			kv, kt := e.evalSpec1(c.Args[1], env)
			return bv(mkSelect(vv.T, e.mapKey(kv, kt))), tBool
		case "allocated":
			// allocated(x): x is nil or refers to an object/array that exists in the state the clause is evaluated in
			v, _ := e.evalSpec1(c.Args[0], env)
			return bv(e.existing(e.asInt(v))), tBool
		case "disjoint":
			// disjoint(a, b): different objects / backing arrays (or one of them nil)
			a, _ := e.evalSpec1(c.Args[0], env)
			b, _ := e.evalSpec1(c.Args[1], env)
			x, y := e.asInt(a), e.asInt(b)
			return bv(mkOr(mkEq(x, "0"), mkEq(y, "0"), mkNot(mkEq(sx("root", x), sx("root", y))))), tBool
		case "strsrc":
			// strsrc(b): the string a byte slice was converted from ([]byte(s))
			v, _ := e.evalSpec1(c.Args[0], env)
			sl, ok := v.(SliceV)
			if !ok {
				return e.specErr("strsrc of a non-slice")
			}
			e.declareFun("bytes.src", []string{SInt}, SInt)
			return iv(sx("bytes.src", sl.Base)), types.Typ[types.String]
		case "nth":
			// nth(tuple, i): projection of a multi-valued pure call
			v, t := e.evalSpec1(c.Args[0], env)
			i, ok := intLit(c.Args[1])
			tv, isT := v.(TupleV)
			if !ok || !isT || i >= len(tv) {
				return e.specErr("nth(tuple, i): not a tuple or index out of range")
			}
			var et types.Type
			if tu, ok := t.(*types.Tuple); ok && i < tu.Len() {
				et = tu.At(i).Type()
			}
			return tv[i], et
		case "tdivs", "tmods":
			a, ta := e.evalSpec1(c.Args[0], env)
			b, _ := e.evalSpec1(c.Args[1], env)
			op := "tdiv"
			if id.Name == "tmods" {
				op = "tmod"
			}
			return iv(sx(op, e.asInt(a), e.asInt(b))), ta
		case "fdiv", "fmod":
			a, ta := e.evalSpec1(c.Args[0], env)
			b, _ := e.evalSpec1(c.Args[1], env)
			op := "div"
			if id.Name == "fmod" {
				op = "mod"
			}
			return iv(sx(op, e.asInt(a), e.asInt(b))), ta
		case "called", "ncalls":
			name, k, _, ok := siteArgs(c.Args)
			if !ok {
				return e.specErr("%s(name, k) expected", id.Name)
			}
			st := e.st
			key := fmt.Sprintf("%s:%s#%d", id.Name, name, k)
			v, found := st.vars[key]
			if !found {
				if !e.hasSite(name, k) {
					return e.specErr("no call site %s#%d in %s", name, k, e.fnName)
				}
				if id.Name == "called" {
					return bv(tFalse), tBool
				}
				return iv("0"), tInt
			}
			if id.Name == "called" {
				return v, tBool
			}
			return v, tInt
		case "ret", "arg":
			name, k, i, ok := siteArgs(c.Args)
			if !ok {
				return e.specErr("%s(name, k, i) expected", id.Name)
			}
			if id.Name == "arg" && env.site != nil && env.site.name == name && env.site.k == k {
				if i < len(env.site.args) {
					return env.site.args[i], env.site.argT[i]
				}
			}
			key := fmt.Sprintf("%s:%s#%d.%d", id.Name, name, k, i)
			v, found := e.st.vars[key]
			if !found && env.inOld && env.cur != nil {
				// inside old(): the arguments/results of a call are values, not state: read the recorded ones
				v, found = env.cur.vars[key]
			}
			t := e.siteType(id.Name, name, k, i)
			if !found {
				if !e.hasSite(name, k) {
					return e.specErr("no call site %s#%d in %s", name, k, e.fnName)
				}
				// not (yet) called on this path: arbitrary value
				if t == nil {
					return e.specErr("cannot type %s(%s,%d,%d)", id.Name, name, k, i)
				}
				return e.havocVal("noevent", t), t
			}
			return v, t
		case "sent":
			name := exprTextMap(c.Args[0], func(n string) string { return e.curName(n, env) })
			if v, ok := e.st.vars["sent:"+name]; ok {
				return v, tInt
			}
			return iv("0"), tInt
		case "spawned":
			// spawned(name, k): call site k of name was executed as a go statement (the call event is recorded too)
			name, k, _, ok := siteArgs(c.Args)
			if !ok {
				return e.specErr("spawned(name, k) expected")
			}
			if v, found := e.st.vars[fmt.Sprintf("spawned:%s#%d", name, k)]; found {
				return v, tBool
			}
			if !e.hasSite(name, k) {
				return e.specErr("no call site %s#%d in %s", name, k, e.fnName)
			}
			return bv(tFalse), tBool
		case "recvd":
			name := exprTextMap(c.Args[0], func(n string) string { return e.curName(n, env) })
			if v, ok := e.st.vars["recvd:"+name]; ok {
				return v, tInt
			}
			return iv("0"), tInt
		case "recvval":
			name := exprTextMap(c.Args[0], func(n string) string { return e.curName(n, env) })
			_, t := e.evalSpec1(c.Args[0], env)
			var et types.Type
			if t != nil {
				if ch, ok := t.Underlying().(*types.Chan); ok {
					et = ch.Elem()
				}
			}
			if v, ok := e.st.vars["recvval:"+name]; ok {
				return v, et
			}
			if et == nil {
				return e.specErr("recvval(%s): not a channel", name)
			}
			return e.havocVal("norecv", et), et
		case "sentval":
			// sentval(ch): the last value sent on ch by this function (arbitrary on paths where nothing was sent)
			name := exprTextMap(c.Args[0], func(n string) string { return e.curName(n, env) })
			_, t := e.evalSpec1(c.Args[0], env)
			var et types.Type
			if t != nil {
				if ch, ok := t.Underlying().(*types.Chan); ok {
					et = ch.Elem()
				}
			}
			if v, ok := e.st.vars["sentval:"+name]; ok {
				return v, et
			}
			if et == nil {
				return e.specErr("sentval(%s): not a channel", name)
			}
			return e.havocVal("nosend", et), et
		case "closed":
			name := exprTextMap(c.Args[0], func(n string) string { return e.curName(n, env) })
			if v, ok := e.st.vars["closed:"+name]; ok {
				return v, tBool
			}
			return bv(tFalse), tBool
		case "wraps":
			a, _ := e.evalSpec1(c.Args[0], env)
			b, tb := e.evalSpec1(c.Args[1], env)
			b = e.boxIfConcrete(b, tb)
			e.declareFun("wraps", []string{SInt, SInt}, SBool)
			x, y := e.asInt(a), e.asInt(b)
			return bv(mkAnd(mkNot(mkEq(x, "0")), mkOr(mkEq(x, y), sx("wraps", x, y)))), tBool
		case "typeis":
			a, _ := e.evalSpec1(c.Args[0], env)
			t := e.resolveType(c.Args[1], env)
			if t == nil {
				return e.specErr("typeis: unknown type")
			}
			x := e.asInt(a)
			return bv(mkAnd(mkNot(mkEq(x, "0")), mkEq(sx("dyntype", x), mkInt(int64(e.g.typeID(t)))))), tBool
		case "elems":
			return e.evalSpec1(c.Args[0], env)
		case "int", "int64", "uint8", "uint16", "uint64", "uint32", "int32":
			v, _ := e.evalSpec1(c.Args[0], env)
			return v, types.Universe.Lookup(id.Name).Type()
		case "fresh":
			// fresh(x): x was allocated during this call
			v, _ := e.evalSpec1(c.Args[0], env)
			if env.old == nil {
				return e.specErr("fresh() without old state")
			}
			// (between the allocation counter at entry and the current one: objects that do not exist yet are not fresh)
			lo := sx(">", sx("root", e.asInt(v)), env.old.alloc)
			if env.cur != nil && env.cur.alloc != "" && !env.inOld {
				return bv(mkAnd(lo, sx("<=", sx("root", e.asInt(v)), env.cur.alloc))), tBool
			}
			return bv(lo), tBool
		}
		// predicate?
		if p := e.lookupPred(id.Name, env); p != nil {
			if len(p.Params) != len(c.Args) {
				return e.specErr("predicate %s: wrong number of arguments", id.Name)
			}
			names := map[string]boundVar{}
			for i, pd := range p.Params {
				v, t := e.evalSpec1(c.Args[i], env)
				if dt := e.resolveType(pd.Type, env); dt != nil && (t == nil || t == untypedInt || isNilType(t)) {
					t = dt
				}
				names[pd.Name] = boundVar{v, t}
			}
			n := env.with(names)
			n.scopePos = 0 // predicate bodies see only their parameters
			n.entry = nil
			return e.evalSpec1(p.Body.Expr, n)
		}
		if fn := e.lookupSpecFn(id.Name, env); fn != nil {
			return e.applySpecFn(fn, c.Args, env)
		}
		// a package-level function of the package whose contract says 'pure'
		if env.pkg != nil {
			if fobj, ok := env.pkg.Types.Scope().Lookup(id.Name).(*types.Func); ok {
				if ct := e.g.contractFor(fobj); ct != nil && ct.Pure {
					args, _ := e.specArgs(c.Args, env)
					sig := fobj.Type().(*types.Signature)
					var resT types.Type
					if sig.Results().Len() == 1 {
						resT = sig.Results().At(0).Type()
					} else {
						resT = sig.Results()
					}
					return e.pureApp(fobj, nil, nil, args, resT), resT
				}
			}
		}
		// type conversion to a named type of the package: T(x)
		if t := e.resolveType(id, env); t != nil && len(c.Args) == 1 {
			v, _ := e.evalSpec1(c.Args[0], env)
			return v, t
		}
		return e.specErr("unknown function or predicate %s", id.Name)
	}
	if sel, ok := c.Fun.(*ast.SelectorExpr); ok {
		if id, ok := sel.X.(*ast.Ident); ok && id.Name == "ghost" {
			key, sort := e.ghostKey(sel.Sel.Name)
			if len(c.Args) != 1 {
				return e.specErr("ghost.%s takes one argument", sel.Sel.Name)
			}
			a, _ := e.evalSpec1(c.Args[0], env)
			r := mkSelect(e.heapGet(key, sort), e.asInt(a))
			if sort == SArrB {
				return bv(r), tBool
			}
			return iv(r), untypedInt // ghost ints also hold references: never boxed when compared with interfaces
		}
		// pkg.T(x) conversion
		if t := e.resolveType(sel, env); t != nil && len(c.Args) == 1 {
			v, _ := e.evalSpec1(c.Args[0], env)
			return v, t
		}
		// pkg.F(args): a pure function of another package
		if id, ok := sel.X.(*ast.Ident); ok {
			if _, bound := env.names[id.Name]; !bound {
				if p := e.findImport(env, id.Name); p != nil {
					if fn, ok := p.Scope().Lookup(sel.Sel.Name).(*types.Func); ok && !e.isVarName(id.Name, env) {
						args, _ := e.specArgs(c.Args, env)
						sig := fn.Type().(*types.Signature)
						var resT types.Type
						if sig.Results().Len() == 1 {
							resT = sig.Results().At(0).Type()
						} else {
							resT = sig.Results()
						}
						if es := e.g.lookupExtern(fn, nil); es != nil && es.Pure && es.Def != nil {
							names := map[string]boundVar{}
							for i, n := range es.Params {
								if i < len(args) {
									names[n] = boundVar{args[i], sig.Params().At(i).Type()}
								}
							}
							v, _ := e.evalSpec1(es.Def.Expr, env.with(names))
							return v, resT
						}
						return e.pureApp(fn, nil, nil, args, resT), resT
					}
				}
			}
		}
		// pure method call: recv.M(args)
		recv, rt := e.evalSpec1(sel.X, env)
		if rt == nil {
			return e.specErr("method call on untyped receiver")
		}
		var pkg *types.Package
		if env.pkg != nil {
			pkg = env.pkg.Types
		}
		if n, ok := derefNamed(rt); ok && n.Obj().Pkg() != nil {
			pkg = n.Obj().Pkg()
		}
		obj, idx, _ := types.LookupFieldOrMethod(rt, true, pkg, sel.Sel.Name)
		fn, ok := obj.(*types.Func)
		if !ok {
			return e.specErr("no method %s on %s", sel.Sel.Name, rt)
		}
		if len(idx) > 1 {
			recv, rt = e.walkFields(recv, rt, idx[:len(idx)-1])
		}
		args, _ := e.specArgs(c.Args, env)
		sig := fn.Type().(*types.Signature)
		var resT types.Type
		if sig.Results().Len() == 1 {
			resT = sig.Results().At(0).Type()
		} else {
			resT = sig.Results()
		}
		// extern with a definition: expand it
		if es := e.g.lookupExtern(fn, rt); es != nil && es.Pure && es.Def != nil {
			names := map[string]boundVar{}
			all := append([]Val{recv}, args...)
			allT := []types.Type{rt}
			for i := 0; i < sig.Params().Len(); i++ {
				allT = append(allT, sig.Params().At(i).Type())
			}
			for i, n := range es.Params {
				if i < len(all) {
					names[n] = boundVar{all[i], allT[i]}
				}
			}
			v, _ := e.evalSpec1(es.Def.Expr, env.with(names))
			return v, resT
		}
		return e.pureApp(fn, rt, recv, args, resT), resT
	}
	return e.specErr("unsupported call form")
}

func (e *Exec) hasSite(name string, k int) bool {
	for _, s := range e.sites {
		if s.Name == name && s.K == k {
			return true
		}
	}
	return false
}

// siteType returns the static type of argument/result i of call site name#k.
func (e *Exec) siteType(kind, name string, k, i int) types.Type {
	for c, s := range e.callOrd {
		if s.Name != name || s.K != k {
			continue
		}
		info := e.fi.pkg.TypesInfo
		if kind == "ret" {
			t := info.TypeOf(c)
			if tu, ok := t.(*types.Tuple); ok {
				if i < tu.Len() {
					return tu.At(i).Type()
				}
				return nil
			}
			return t
		}
		sig, _ := info.TypeOf(c.Fun).Underlying().(*types.Signature)
		if sig == nil {
			return nil
		}
		// methods: index 0 is the receiver
		isMethod := false
		if sel, ok := ast.Unparen(c.Fun).(*ast.SelectorExpr); ok {
			if s, ok := info.Selections[sel]; ok && s.Kind() == types.MethodVal {
				isMethod = true
				if i == 0 {
					return s.Recv()
				}
			}
		}
		j := i
		if isMethod {
			j = i - 1
		}
		if sig.Variadic() && j >= sig.Params().Len()-1 {
			return sig.Params().At(sig.Params().Len() - 1).Type()
		}
		if j < sig.Params().Len() {
			return sig.Params().At(j).Type()
		}
	}
	return nil
}

func (e *Exec) lookupPred(name string, env *SpecEnv) *PredDef {
	if env.sf != nil {
		if p, ok := env.sf.Preds[name]; ok {
			return p
		}
	}
	if p, ok := e.g.globalPreds[name]; ok {
		return p
	}
	return nil
}

func (e *Exec) lookupSpecFn(name string, env *SpecEnv) *SpecFn {
	if env.sf != nil {
		if f, ok := env.sf.Fns[name]; ok {
			return f
		}
	}
	if f, ok := e.g.globalFns[name]; ok {
		return f
	}
	return nil
}

// flatten a value into SMT arguments for an uninterpreted/spec function application
func (e *Exec) flatArgs(v Val, t types.Type) ([]string, []string) {
	return e.flatArgsL(v, t, true)
}

func (e *Exec) flatArgsL(v Val, t types.Type, needLen bool) ([]string, []string) {
	a, s := e.flatArgs0(v, t)
	if !needLen && len(a) == 3 {
		return a[:2], s[:2]
	}
	return a, s
}

func (e *Exec) flatArgs0(v Val, t types.Type) ([]string, []string) {
	switch x := v.(type) {
	case SV:
		return []string{x.T}, []string{x.S}
	case ArrSliceV:
		return []string{x.Arr, x.Off, x.Len}, []string{arrSort(x.Elem), SInt, SInt}
	case SliceV:
		et := elemType(t)
		if k := kindOf(et); et != nil && (k == kRef || k == kStruct || k == kSlice) {
			// slices of references/structs/slices (e.g. multiaddrs): identified by their header; their contents are
			// treated as immutable while the value is in use
			return []string{x.Base, x.Off, x.Len}, []string{SInt, SInt, SInt}
		}
		key, sort := elemsKey(et)
		es := SInt
		if kindOf(et) == kBool {
			es = SBool
		}
		return []string{mkSelect(e.heapGet(key, sort), x.Base), x.Off, x.Len}, []string{arrSort(es), SInt, SInt}
	}
	return []string{e.asInt(v)}, []string{SInt}
}

func (e *Exec) applySpecFn(fn *SpecFn, argx []ast.Expr, env *SpecEnv) (Val, types.Type) {
	if len(argx) != len(fn.Params) {
		return e.specErr("spec fn %s: wrong number of arguments", fn.Name)
	}
	if e.usedFns == nil {
		e.usedFns = map[string]bool{}
	}
	e.usedFns[fn.Name] = true
	var args []string
	var sorts []string
	for i, a := range argx {
		v, t := e.evalSpec1(a, env)
		if dt := e.resolveType(fn.Params[i].Type, env); dt != nil {
			t = dt
		}
		as, ss := e.flatArgsL(v, t, fn.usesLen(fn.Params[i].Name))
		args = append(args, as...)
		sorts = append(sorts, ss...)
	}
	rt := e.resolveType(fn.Result, env)
	if rt == nil {
		return e.specErr("spec fn %s: unknown result type", fn.Name)
	}
	e.fnsUsed[fn.Name] = true
	name := "sf." + fn.Name
	if fn.Body == nil {
		e.declareFun(name, sorts, sortOfType(rt))
	}
	t := sx(name, args...)
	if len(args) == 0 {
		t = name
	}
	if kindOf(rt) == kBool {
		return bv(t), rt
	}
	return iv(t), rt
}

// pureApp applies a deterministic (A-PURE) function/method as an uninterpreted function.
func (e *Exec) pureApp(fn *types.Func, recvT types.Type, recv Val, args []Val, resT types.Type) Val {
	keys := externKeys(fn, recvT)
	key := keys[0]
	if es := e.g.lookupExtern(fn, recvT); es != nil {
		key = es.Key
	}
	name := "uf." + smtName(key)
	var as, ss []string
	sig := fn.Type().(*types.Signature)
	if recv != nil {
		a, s := e.flatArgs(recv, recvT)
		as, ss = append(as, a...), append(ss, s...)
	}
	for i, a := range args {
		var pt types.Type
		if i < sig.Params().Len() {
			pt = sig.Params().At(i).Type()
		}
		x, s := e.flatArgs(a, pt)
		as, ss = append(as, x...), append(ss, s...)
	}
	mk := func(suffix string, t types.Type) Val {
		switch kindOf(t) {
		case kBool:
			e.declareFun(name+suffix, ss, SBool)
			return bv(sx(name+suffix, as...))
		case kSlice, kArray:
			var parts [3]string
			for i, p := range []string{".base", ".off", ".len"} {
				e.declareFun(name+suffix+p, ss, SInt)
				parts[i] = e.nameTerm("pa"+p, sx(name+suffix+p, as...), SInt)
			}
			e.addFact(mkAnd(sx(">=", parts[2], "0"), sx(">=", parts[1], "0")))
			if a, ok := t.Underlying().(*types.Array); ok {
				e.addFact(mkEq(parts[2], mkInt(a.Len())))
			}
			return SliceV{parts[0], parts[1], parts[2], parts[2]}
		default:
			e.declareFun(name+suffix, ss, SInt)
			r := sx(name+suffix, as...)
			if len(as) == 0 {
				r = name + suffix
			}
			if lo, hi, ok := intRange(t); ok && kindOf(t) == kInt {
				e.addFact(mkAnd(sx("<=", lo, r), sx("<=", r, hi)))
			}
			return iv(r)
		}
	}
	if len(as) == 0 {
		// nullary: a constant
		if tu, ok := resT.(*types.Tuple); ok {
			var out TupleV
			for i := 0; i < tu.Len(); i++ {
				s := sortOfType(tu.At(i).Type())
				e.declare(fmt.Sprintf("%s.%d", name, i), s)
				out = append(out, SV{fmt.Sprintf("%s.%d", name, i), s})
			}
			return out
		}
		s := sortOfType(resT)
		e.declare(name, s)
		return SV{name, s}
	}
	if tu, ok := resT.(*types.Tuple); ok {
		var out TupleV
		for i := 0; i < tu.Len(); i++ {
			out = append(out, mk(fmt.Sprintf(".%d", i), tu.At(i).Type()))
		}
		return out
	}
	return mk("", resT)
}

// usesLen reports whether the body of a spec function mentions len(p) (otherwise the length of a
// slice parameter is not passed, so that the function visibly does not depend on it).
func (fn *SpecFn) usesLen(p string) bool {
	if fn.Body == nil {
		return true
	}
	found := false
	ast.Inspect(fn.Body.Expr, func(n ast.Node) bool {
		if c, ok := n.(*ast.CallExpr); ok {
			if id, ok := c.Fun.(*ast.Ident); ok && (id.Name == "len" || id.Name == "cap") && len(c.Args) == 1 {
				if a, ok := c.Args[0].(*ast.Ident); ok && a.Name == p {
					found = true
				}
			}
		}
		return !found
	})
	return found
}

// snapshotSlice freezes the contents of a program slice in the current state of e.st.
func (e *Exec) snapshotSlice(sl SliceV, t types.Type) ArrSliceV {
	et := elemType(t)
	key, sort := elemsKey(et)
	es := SInt
	if kindOf(et) == kBool {
		es = SBool
	}
	return ArrSliceV{Arr: mkSelect(e.heapGet(key, sort), sl.Base), Off: sl.Off, Len: sl.Len, Elem: es, Base: sl.Base}
}

// lemmaInstance evaluates lemma(args) as a ground fact (requires ==> ensures).
func (e *Exec) lemmaInstance(c Clause, env *SpecEnv) string {
	call, ok := c.Expr.(*ast.CallExpr)
	if !ok {
		e.fail("%s:%d: instance must be lemma(args)", c.File, c.Line)
		return tTrue
	}
	id, ok := call.Fun.(*ast.Ident)
	if !ok || env.sf == nil || env.sf.Lemmas[id.Name] == nil {
		e.fail("%s:%d: unknown lemma in instance", c.File, c.Line)
		return tTrue
	}
	l := env.sf.Lemmas[id.Name]
	if len(call.Args) != len(l.Params) {
		e.fail("%s:%d: lemma %s takes %d arguments", c.File, c.Line, l.Name, len(l.Params))
		return tTrue
	}
	names := map[string]boundVar{}
	for i, p := range l.Params {
		v, t := e.evalSpec(call.Args[i], env)
		if dt := e.resolveType(p.Type, env); dt != nil {
			t = dt
		}
		if sl, ok := v.(SliceV); ok {
			saved := e.st
			if env.cur != nil {
				e.st = env.cur
			}
			v = e.snapshotSlice(sl, t)
			e.st = saved
		}
		names[p.Name] = boundVar{v, t}
	}
	penv := &SpecEnv{pure: true, names: names, pkg: env.pkg, sf: env.sf}
	var rs, es []string
	for _, r := range l.Requires {
		rs = append(rs, e.specBool(r, penv))
	}
	for _, en := range l.Ensures {
		es = append(es, e.specBool(en, penv))
	}
	e.trusted["lemma "+l.Name+" (proved separately, obligations 'lemma "+l.Name+"/*')"] = true
	return mkImp(mkAnd(rs...), mkAnd(es...))
}

func isIface(t types.Type) bool {
	if t == nil {
		return false
	}
	_, ok := t.Underlying().(*types.Interface)
	return ok
}

// boxIfConcrete converts a concrete (non-interface, typed) value into its interface representation.
func (e *Exec) boxIfConcrete(v Val, t types.Type) Val {
	if t == nil || isIface(t) || isNilType(t) || t == untypedInt {
		return v
	}
	if b, ok := t.(*types.Basic); ok && b.Info()&types.IsUntyped != 0 {
		return v
	}
	return e.box(v, t)
}

func (e *Exec) isVarName(name string, env *SpecEnv) bool {
	name = e.curName(name, env)
	if env.entry != nil {
		if _, ok := env.entry[name]; ok {
			return true
		}
	}
	if env.scopePos != 0 && env.pkg != nil {
		if sc := env.pkg.Types.Scope().Innermost(env.scopePos); sc != nil {
			if _, obj := sc.LookupParent(name, env.scopePos); obj != nil {
				if _, isPkg := obj.(*types.PkgName); !isPkg {
					return true
				}
			}
		}
	}
	return false
}
