package main

// Calls: builtins, conversions, inlining, modular calls through contracts, extern specs.

import (
	"fmt"
	"regexp"
	"sort"
	"strconv"
	"go/ast"
	"go/token"
	"go/types"
	"strings"

	"golang.org/x/tools/go/packages"
)

const maxInlineDepth = 4

func (e *Exec) evCall(c *ast.CallExpr) Val {
	// conversion?
	if tv, ok := e.info().Types[c.Fun]; ok && tv.IsType() {
		return e.conversion(c, tv.Type)
	}
	// builtin?
	if id, ok := ast.Unparen(c.Fun).(*ast.Ident); ok {
		if b, ok := e.info().ObjectOf(id).(*types.Builtin); ok {
			return e.builtin(c, b.Name())
		}
	}
	fv := e.calleeValue(c)
	if f, ok := fv.(FuncV); ok && f.Lit == nil && isLogCall(f.Fn, c) {
		// A-LOG: logging, metrics and tracing calls are dropped together with their argument expressions
		return e.havocResult("log", e.callResultType(c))
	}
	var args []Val
	sig, _ := e.typeOf(c.Fun).Underlying().(*types.Signature)
	if len(c.Args) == 1 && sig != nil && sig.Params().Len() > 1 {
		// f(g()) with multi-value g
		if tv, ok := e.ev(c.Args[0]).(TupleV); ok {
			args = tv
		}
	} else {
		for i, a := range c.Args {
			var pt types.Type
			if sig != nil {
				if sig.Variadic() && i >= sig.Params().Len()-1 {
					pt = sig.Params().At(sig.Params().Len() - 1).Type()
					if !c.Ellipsis.IsValid() {
						pt = pt.(*types.Slice).Elem()
					}
				} else if i < sig.Params().Len() {
					pt = sig.Params().At(i).Type()
				}
			}
			raw := e.ev(a)
			at := e.typeOf(a)
			if pt != nil && at != nil && kindOf(at) == kSlice {
				if it, isIface := pt.Underlying().(*types.Interface); isIface && it.NumMethods() == 0 {
					// a slice passed as `any`: extern specs bind the parameter to the slice itself
					if e.rawArgs == nil {
						e.rawArgs = map[*ast.CallExpr]map[int]boundVar{}
					}
					if e.rawArgs[c] == nil {
						e.rawArgs[c] = map[int]boundVar{}
					}
					e.rawArgs[c][i] = boundVar{raw, at}
				}
			}
			args = append(args, e.convAssign(raw, at, pt))
		}
		if f, ok := fv.(FuncV); ok && f.Fn != nil && f.Fn.Pkg() != nil && f.Fn.Name() == "FilterAddrs" &&
			f.Fn.Pkg().Path() == "github.com/multiformats/go-multiaddr" && len(args) >= 1 && !c.Ellipsis.IsValid() {
			e.checkCallsite(c, fv, args)
			res := e.filterAddrs(c, args[0], args[1:])
			e.recordCallEvent(c, args[:1], res)
			return res
		}
		if f, ok := fv.(FuncV); ok && f.Fn != nil && f.Fn.Pkg() != nil && f.Fn.Name() == "DeleteFunc" &&
			f.Fn.Pkg().Path() == "slices" && len(args) == 2 {
			e.checkCallsite(c, fv, args)
			e.negateFilter = true
			res := e.filterAddrs(c, args[0], args[1:])
			e.negateFilter = false
			e.recordCallEvent(c, args[:1], res)
			return res
		}
		if sig != nil && sig.Variadic() && !c.Ellipsis.IsValid() {
			// pack variadic arguments into a fresh slice
			np := sig.Params().Len() - 1
			vt := sig.Params().At(np).Type()
			if len(args) >= np {
				extra := args[np:]
				var s SliceV
				if len(extra) == 0 {
					s = SliceV{"0", "0", "0", "0"}
				} else {
					base := e.allocRef("va")
					s = SliceV{base, "0", mkInt(int64(len(extra))), mkInt(int64(len(extra)))}
					for i, x := range extra {
						e.writeElem(s, mkInt(int64(i)), elemType(vt), x)
					}
				}
				args = append(append([]Val{}, args[:np]...), s)
			}
		}
	}
	return e.callValue(c, fv, args, false)
}

func (e *Exec) calleeValue(c *ast.CallExpr) Val {
	fun := ast.Unparen(c.Fun)
	if id, ok := fun.(*ast.Ident); ok {
		if _, ok := e.info().ObjectOf(id).(*types.Builtin); ok {
			return FuncV{}
		}
	}
	if ix, ok := fun.(*ast.IndexExpr); ok {
		if tv, ok := e.info().Types[ix.X]; ok {
			if _, isSig := tv.Type.Underlying().(*types.Signature); isSig {
				fun = ix.X
			}
		}
	}
	if ix, ok := fun.(*ast.IndexListExpr); ok {
		fun = ix.X
	}
	return e.ev(fun)
}

// recordCallEvent stores the ghost path events of a call site of the function under verification.
func (e *Exec) recordCallEvent(c *ast.CallExpr, args []Val, res Val) {
	site, ok := e.callOrd[c]
	if !ok {
		return
	}
	p := fmt.Sprintf("%s#%d", site.Name, site.K)
	e.st.vars["called:"+p] = bv(tTrue)
	cnt, _ := e.st.vars["ncalls:"+p].(SV)
	if cnt.T == "" {
		cnt = iv("0")
	}
	e.st.vars["ncalls:"+p] = iv(mkAdd(cnt.T, "1"))
	for i, a := range args {
		e.st.vars[fmt.Sprintf("arg:%s.%d", p, i)] = a
	}
	if res != nil {
		if tv, ok := res.(TupleV); ok {
			for i, r := range tv {
				e.st.vars[fmt.Sprintf("ret:%s.%d", p, i)] = r
			}
		} else {
			e.st.vars["ret:"+p+".0"] = res
		}
	}
}

func (e *Exec) callValue(c *ast.CallExpr, fv Val, args []Val, deferredCall bool) Val {
	resT := e.callResultType(c)
	// caller-side clauses
	e.checkCallsite(c, fv, args)
	var res Val
	switch f := fv.(type) {
	case ChoiceV:
		a, b := e.branch(f.Cond)
		e.st = a
		ra := e.callValueNoEvent(c, f.A, args, resT)
		a = e.st
		e.st = b
		rb := e.callValueNoEvent(c, f.B, args, resT)
		b = e.st
		e.st = e.merge(a, b)
		if ra != nil && rb != nil {
			res = e.mergeVal(a.pc, ra, rb, "res")
		}
	default:
		res = e.callValueNoEvent(c, fv, args, resT)
	}
	e.wfHeaps()
	evArgs := args
	if f, ok := fv.(FuncV); ok && f.Recv != nil {
		evArgs = append([]Val{f.Recv}, args...)
		// event args are numbered from the receiver: arg(f,k,0) is the receiver for methods
	}
	e.recordCallEvent(c, evArgs, res)
	return res
}

func (e *Exec) callResultType(c *ast.CallExpr) types.Type {
	if t := e.typeOf(c); t != nil {
		return t
	}
	return nil
}

func (e *Exec) havocResult(prefix string, t types.Type) Val {
	if t == nil {
		return nil
	}
	if tu, ok := t.(*types.Tuple); ok {
		if tu.Len() == 0 {
			return nil
		}
		return e.havocVal(prefix, tu)
	}
	return e.havocVal(prefix, t)
}

func (e *Exec) callValueNoEvent(c *ast.CallExpr, fv Val, args []Val, resT types.Type) Val {
	f, ok := fv.(FuncV)
	if !ok {
		// call through an opaque function value
		e.warn("call through opaque function value %s", exprText(c.Fun))
		e.havocBoxed()
		e.invokeEscaped()
		return e.havocResult("dyn", resT)
	}
	if f.Lit != nil {
		return e.inlineLit(f, args, c)
	}
	if f.Fn == nil {
		return e.havocResult("nofn", resT)
	}
	fn := f.Fn
	if isLogCall(fn, c) {
		return e.havocResult("log", resT)
	}
	if e.isOpaqueFor(fn.Name()) {
		e.havocBoxed()
		return e.havocResult(fn.Name(), resT)
	}
	if r, handled := e.intrinsic(fn, f, args, c, resT); handled {
		return r
	}
	// contract of an in-module function
	if ct := e.g.contractFor(fn); ct != nil && !e.forceInline(fn.Name()) {
		r := e.applyContract(fn, ct, f, args, resT, c)
		if !ct.Pure {
			e.invokeEscaped()
		}
		return r
	}
	if es := e.g.lookupExtern(fn, f.RecvT); es != nil {
		r := e.applyExtern(fn, es, f, args, resT, c)
		if !es.Pure {
			e.invokeEscaped()
		}
		return r
	}
	// inline a function whose source we have
	if fi := e.g.funcs[fn.Origin()]; fi != nil && e.mayInline(fn, fi) {
		return e.inlineFunc(fi, f, args, c)
	}
	// unknown call
	iface := false
	if f.RecvT != nil {
		_, iface = f.RecvT.Underlying().(*types.Interface)
	}
	key := ""
	ks := externKeys(fn, f.RecvT)
	if len(ks) > 0 {
		key = ks[len(ks)-1]
	}
	if iface {
		e.warn("unspecified interface method %s: results havoc'd, no heap effect assumed (A-EXT)", key)
	} else if fn.Pkg() != nil && strings.HasPrefix(fn.Pkg().Path(), modPath) {
		// a go-libp2p function of another package without contract: it may change any field of the types of
		// its own package (those are the unexported fields it can reach)
		e.warn("go-libp2p function %s has no contract: results and all fields of its package's types havoc'd", key)
		e.havocPkgFields(fn.Pkg().Path())
	} else {
		e.warn("unspecified external function %s: results havoc'd, no heap effect assumed (A-EXT)", key)
	}
	e.havocPointerArgs(c, args, fn)
	e.havocBoxed()
	e.invokeEscaped()
	return e.havocResult(fn.Name(), resT)
}

// havocBoxed: locals whose address was taken may be changed by any call.
func (e *Exec) havocBoxed() {
	for k := range e.st.vars {
		ks, ok := k.(string)
		if !ok || !strings.HasPrefix(ks, "boxed:") {
			continue
		}
		for vk := range e.st.vars {
			if obj, ok := vk.(types.Object); ok && "boxed:"+keyString(obj) == ks {
				e.st.vars[obj] = e.havocVal(obj.Name(), obj.Type())
			}
		}
	}
}

func (e *Exec) isOpaqueFor(name string) bool {
	if e.contract == nil {
		return false
	}
	for _, n := range e.contract.Opaque {
		if n == name {
			return true
		}
	}
	return false
}

func (e *Exec) forceInline(name string) bool {
	if e.contract == nil {
		return false
	}
	for _, n := range e.contract.Inline {
		if n == name {
			return true
		}
	}
	return false
}

func (e *Exec) mayInline(fn *types.Func, fi *funcInfo) bool {
	if e.inlining[fn.Origin()] > 0 {
		return false // recursion
	}
	if len(e.frames) > maxInlineDepth {
		return false
	}
	if e.contract != nil {
		for _, n := range e.contract.NoInline {
			if n == fn.Name() {
				return false
			}
		}
	}
	if e.forceInline(fn.Name()) {
		return true
	}
	// by default only functions of the package under verification are inlined; everything else needs a
	// contract, an extern spec, or an explicit 'inline' clause (otherwise: results havoc'd, A-EXT)
	if fn.Pkg() == nil || e.fi == nil || fn.Pkg() != e.fi.pkg.Types {
		return false
	}
	return true
}

func (e *Exec) bindParams(sig *types.Signature, recvIdent *ast.Ident, recv Val, params *ast.FieldList, args []Val, info *types.Info) {
	if recvIdent != nil && recv != nil {
		if obj := info.Defs[recvIdent]; obj != nil {
			e.st.vars[obj] = recv
		}
	}
	i := 0
	if params == nil {
		return
	}
	for _, fld := range params.List {
		if len(fld.Names) == 0 {
			i++
			continue
		}
		for _, n := range fld.Names {
			if obj := info.Defs[n]; obj != nil && n.Name != "_" {
				if i < len(args) {
					e.st.vars[obj] = args[i]
				} else {
					e.st.vars[obj] = e.havocVal(n.Name, obj.Type())
				}
			}
			i++
		}
	}
}

func (e *Exec) setupResults(fr *Frame, results *ast.FieldList, sig *types.Signature, info *types.Info) {
	if results == nil {
		return
	}
	i := 0
	for _, fld := range results.List {
		if len(fld.Names) == 0 {
			key := fmt.Sprintf("$res%d@%d", i, len(e.frames))
			fr.resultKeys = append(fr.resultKeys, key)
			fr.resultTypes = append(fr.resultTypes, sig.Results().At(i).Type())
			e.st.vars[key] = e.zeroValShallowT(sig.Results().At(i).Type())
			i++
			continue
		}
		for _, n := range fld.Names {
			obj := info.Defs[n]
			if obj == nil || n.Name == "_" {
				key := fmt.Sprintf("$res%d@%d", i, len(e.frames))
				fr.resultKeys = append(fr.resultKeys, key)
				e.st.vars[key] = e.zeroValShallowT(sig.Results().At(i).Type())
			} else {
				fr.resultKeys = append(fr.resultKeys, obj)
				e.st.vars[obj] = e.zeroVal(obj.Type())
			}
			fr.resultTypes = append(fr.resultTypes, sig.Results().At(i).Type())
			i++
		}
	}
}

func (e *Exec) zeroValShallowT(t types.Type) Val {
	if kindOf(t) == kStruct {
		return e.zeroVal(t)
	}
	return e.zeroValShallow(t)
}

// runInlined executes body in a new frame and returns the merged result value.
func (e *Exec) runInlined(fr *Frame, body *ast.BlockStmt) Val {
	e.frames = append(e.frames, fr)
	e.execBlock(body)
	if !e.dead() {
		e.finishReturn(fr, nil)
	}
	e.frames = e.frames[:len(e.frames)-1]
	out := e.mergeAll(fr.rets)
	if out == nil {
		// the callee never returns (all paths dead)
		dead := e.st.clone()
		dead.pc = tFalse
		e.st = dead
		return nil
	}
	e.st = out
	var res Val
	switch len(fr.resultKeys) {
	case 0:
	case 1:
		res = e.st.vars[fr.resultKeys[0]]
	default:
		var tv TupleV
		for _, k := range fr.resultKeys {
			tv = append(tv, e.st.vars[k])
		}
		res = tv
	}
	return res
}

func (e *Exec) inlineFunc(fi *funcInfo, f FuncV, args []Val, c *ast.CallExpr) Val {
	fn := fi.obj
	e.inlining[fn]++
	defer func() { e.inlining[fn]-- }()
	savedPkg := e.pkg
	e.pkg = fi.pkg
	defer func() { e.pkg = savedPkg }()
	sig := fn.Type().(*types.Signature)
	fr := &Frame{fn: fn, sig: sig, pkg: fi.pkg, body: fi.decl.Body}
	var recvIdent *ast.Ident
	recv := f.Recv
	if fi.decl.Recv != nil && len(fi.decl.Recv.List) > 0 && len(fi.decl.Recv.List[0].Names) > 0 {
		recvIdent = fi.decl.Recv.List[0].Names[0]
	}
	if sig.Recv() != nil && f.Recv == nil && len(args) > 0 {
		// method expression T.m(recv, args...)
		recv, args = args[0], args[1:]
	}
	if recv != nil && sig.Recv() != nil {
		recv = e.adjustRecv(recv, f.RecvT, sig.Recv().Type())
	}
	e.bindParams(sig, recvIdent, recv, fi.decl.Type.Params, args, fi.pkg.TypesInfo)
	e.setupResults(fr, fi.decl.Type.Results, sig, fi.pkg.TypesInfo)
	return e.runInlined(fr, fi.decl.Body)
}

// adjustRecv: value receivers get a copy.
func (e *Exec) adjustRecv(recv Val, have, want types.Type) Val {
	if kindOf(want) == kStruct {
		if sv, ok := recv.(SV); ok {
			r := e.allocRef("rcv")
			e.copyStruct(r, sv.T, want)
			return iv(r)
		}
	}
	return recv
}

func (e *Exec) inlineLit(f FuncV, args []Val, c *ast.CallExpr) Val {
	if len(e.frames) > maxInlineDepth+4 {
		e.warn("closure call too deep")
		return e.havocResult("deep", e.callResultType(c))
	}
	savedPkg := e.pkg
	if f.Pkg != nil {
		e.pkg = f.Pkg
	}
	defer func() { e.pkg = savedPkg }()
	sig, _ := e.info().Types[f.Lit].Type.(*types.Signature)
	if sig == nil {
		return e.havocResult("lit", e.callResultType(c))
	}
	fr := &Frame{sig: sig, pkg: e.pkg, body: f.Lit.Body, closure: true}
	e.bindParams(sig, nil, nil, f.Lit.Type.Params, args, e.info())
	e.setupResults(fr, f.Lit.Type.Results, sig, e.info())
	return e.runInlined(fr, f.Lit.Body)
}

// ---- conversions and builtins -------------------------------------------------

func (e *Exec) conversion(c *ast.CallExpr, to types.Type) Val {
	v := e.ev(c.Args[0])
	from := e.typeOf(c.Args[0])
	kf, kt := kindOf(from), kindOf(to)
	switch {
	case kf == kInt && kt == kInt:
		sv, ok := v.(SV)
		if !ok {
			return e.havocVal("conv", to)
		}
		if e.wrap {
			flo, fhi, _ := intRange(from)
			tlo, thi, ok2 := intRange(to)
			if ok2 && !(rangeWithin(flo, fhi, tlo, thi)) {
				return iv(e.wrapTo(sv.T, to))
			}
		}
		return sv
	case kf == kt && kf != kString && kf != kSlice:
		return e.convAssign(v, from, to)
	case kt == kString && kf == kSlice, kt == kSlice && kf == kString:
		// string <-> []byte: content-preserving, length-preserving
		if kt == kString {
			s, _ := v.(SliceV)
			e.declareFun("str.of", []string{SInt, SInt, SInt, SArrI}, SInt)
			key, sort := elemsKey(types.Typ[types.Byte])
			r := e.nameTerm("str", sx("str.of", s.Base, s.Off, s.Len, mkSelect(e.heapGet(key, sort), s.Base)), SInt)
			e.addFact(mkEq(sx("strlen", r), s.Len))
			return iv(r)
		}
		sv, _ := v.(SV)
		base := e.allocRef("bytes")
		sl := SliceV{base, "0", sx("strlen", sv.T), sx("strlen", sv.T)}
		e.declareFun("bytes.src", []string{SInt}, SInt)
		e.addFact(mkAnd(mkEq(sx("bytes.src", base), sv.T), sx(">=", sl.Len, "0")))
		// contents: byte i of the new array is character i of the string
		e.declareFun("strat", []string{SInt, SInt}, SInt)
		key, srt := elemsKey(types.Typ[types.Byte])
		row := mkSelect(e.heapGet(key, srt), base)
		e.addFact(fmt.Sprintf("(forall ((i Int)) (! (=> (and (<= 0 i) (< i %s)) (= (select %s i) (strat %s i))) :pattern ((select %s i))))", sl.Len, row, sv.T, row))
		return sl
	case kt == kString && kf == kString, kt == kSlice && kf == kSlice:
		return v
	case kt == kString && kf == kInt:
		e.declareFun("str.rune", []string{SInt}, SInt)
		return iv(sx("str.rune", e.asInt(v)))
	case kt == kFloat || kf == kFloat:
		fn := "conv.flt"
		e.declareFun(fn, []string{SInt}, SInt)
		if sv, ok := v.(SV); ok {
			return iv(sx(fn, e.asInt(sv)))
		}
	case kt == kRef:
		return e.convAssign(v, from, to)
	}
	if kf == kt {
		return v
	}
	e.warn("conversion %s -> %s not modelled", from, to)
	return e.havocVal("conv", to)
}

func rangeWithin(flo, fhi, tlo, thi string) bool {
	// crude: only identical ranges or known widenings
	if flo == tlo && fhi == thi {
		return true
	}
	order := map[string]int{"255": 1, "127": 1, "32767": 2, "65535": 2, "2147483647": 3, "4294967295": 3, "9223372036854775807": 4, "18446744073709551615": 5}
	if flo == "0" && tlo != "0" {
		return order[fhi] < order[thi] || (order[fhi] == order[thi] && false)
	}
	if flo == "0" && tlo == "0" {
		return order[fhi] <= order[thi]
	}
	if flo != "0" && tlo != "0" {
		return order[fhi] <= order[thi]
	}
	return false
}

func (e *Exec) builtin(c *ast.CallExpr, name string) Val {
	switch name {
	case "len", "cap":
		v := e.ev(c.Args[0])
		t := e.typeOf(c.Args[0])
		switch x := v.(type) {
		case SliceV:
			if name == "cap" {
				return iv(x.Cap)
			}
			return iv(x.Len)
		case SV:
			switch t.Underlying().(type) {
			case *types.Map:
				r := e.mapLen(x.T)
				e.assume(sx(">=", r, "0"))
				// state invariant of Go maps: len == |dom|, in particular len == 0 iff no key is present
				e.assume(mkEq(mkEq(r, "0"), mkEq(e.mapDom(x.T), "((as const (Array Int Bool)) false)")))
				return iv(r)
			case *types.Chan:
				e.declareFun("chanlen", []string{SInt}, SInt)
				return iv(sx("chanlen", x.T))
			}
			if kindOf(t) == kString {
				r := sx("strlen", x.T)
				e.addFact(sx(">=", r, "0"))
				e.addFact(mkEq(mkEq(r, "0"), mkEq(x.T, "0")))
				return iv(r)
			}
		}
		return e.havocVal("len", types.Typ[types.Int])
	case "append":
		return e.builtinAppend(c)
	case "copy":
		return e.builtinCopy(c)
	case "delete":
		m, ok := e.ev(c.Args[0]).(SV)
		mt, _ := e.typeOf(c.Args[0]).Underlying().(*types.Map)
		if ok && mt != nil {
			e.mapDelete(m.T, e.mapKey(e.ev(c.Args[1]), mt.Key()))
		}
		return nil
	case "make":
		t := e.typeOf(c)
		switch t.Underlying().(type) {
		case *types.Slice:
			n := "0"
			if len(c.Args) > 1 {
				n = e.asInt(e.ev(c.Args[1]))
			}
			cp := n
			if len(c.Args) > 2 {
				cp = e.asInt(e.ev(c.Args[2]))
			}
			base := e.allocRef("mk")
			// zero-initialised contents
			et := elemType(t)
			key, sort := elemsKey(et)
			h := e.heapGet(key, sort)
			zero := "((as const (Array Int Int)) 0)"
			if kindOf(et) == kBool {
				zero = "((as const (Array Int Bool)) false)"
			}
			e.heapSet(key, sort, mkStore(h, base, zero))
			return SliceV{base, "0", n, cp}
		case *types.Map:
			for _, a := range c.Args[1:] {
				e.ev(a)
			}
			return iv(e.newMapT(t))
		case *types.Chan:
			for _, a := range c.Args[1:] {
				e.ev(a)
			}
			return iv(e.allocRef("chan"))
		}
	case "new":
		t := e.typeOf(c.Args[0])
		r := e.allocRef("new")
		if kindOf(t) == kStruct {
			e.initStruct(r, t)
		} else {
			e.storeDeref(iv(r), t, e.zeroValShallow(t))
		}
		return iv(r)
	case "min", "max":
		v := e.ev(c.Args[0])
		for _, a := range c.Args[1:] {
			w := e.ev(a)
			x, y := e.asInt(v), e.asInt(w)
			if name == "min" {
				v = iv(mkIte(sx("<=", x, y), x, y))
			} else {
				v = iv(mkIte(sx(">=", x, y), x, y))
			}
		}
		return v
	case "panic":
		// A-NOPANIC: panicking paths are not modelled
		for _, a := range c.Args {
			e.ev(a)
		}
		dead := e.st.clone()
		dead.pc = tFalse
		e.st = dead
		return nil
	case "recover":
		return iv("0")
	case "close":
		ch := e.ev(c.Args[0])
		name := "closed:" + exprText(c.Args[0])
		_ = ch
		e.st.vars[name] = bv(tTrue)
		return nil
	case "clear":
		v := e.ev(c.Args[0])
		if m, ok := v.(SV); ok {
			if _, isMap := e.typeOf(c.Args[0]).Underlying().(*types.Map); isMap {
				domH := e.heapGet("map#dom", arrSort(SArrB))
				e.heapSet("map#dom", arrSort(SArrB), mkStore(domH, m.T, "((as const (Array Int Bool)) false)"))
				e.heapSet("map#len", SArrI, mkStore(e.heapGet("map#len", SArrI), m.T, "0"))
			}
		}
		return nil
	case "print", "println":
		return nil
	}
	e.warn("builtin %s not modelled", name)
	return e.havocResult(name, e.typeOf(c))
}

func (e *Exec) builtinAppend(c *ast.CallExpr) Val {
	t := e.typeOf(c)
	et := elemType(t)
	sv := e.ev(c.Args[0])
	s, ok := sv.(SliceV)
	if !ok {
		return e.havocVal("app", t)
	}
	if len(c.Args) == 1 {
		return s
	}
	key, sort := elemsKey(et)
	if c.Ellipsis.IsValid() {
		// append(a, b...): copy-on-append into a fresh array; contents given by a quantified fact
		src := e.ev(c.Args[1])
		var b SliceV
		switch x := src.(type) {
		case SliceV:
			b = x
		default:
			// string source or unknown
			e.warn("append(x, s...) with non-slice source")
			return e.havocVal("app", t)
		}
		base := e.allocRef("app")
		h := e.heapGet(key, sort)
		arr := e.fresh("apparr", sort[len("(Array Int "):len(sort)-1])
		if !isIntLit(s.Len) && strings.HasPrefix(s.Len, "(") {
			// name the length: it is used inside a quantifier pattern (no ite allowed there)
			ln := e.fresh("applen", SInt)
			e.addFact(mkEq(ln, s.Len))
			s.Len = ln
		}
		n := SliceV{base, "0", mkAdd(s.Len, b.Len), mkAdd(s.Len, b.Len)}
		e.addFact(fmt.Sprintf("(forall ((i Int)) (! (=> (and (<= 0 i) (< i %s)) (= (select %s i) (select (select %s %s) (+ %s i)))) :pattern ((select %s i))))",
			s.Len, arr, h, s.Base, s.Off, arr))
		e.addFact(fmt.Sprintf("(forall ((i Int)) (! (=> (and (<= 0 i) (< i %s)) (= (select %s (+ %s i)) (select (select %s %s) (+ %s i)))) :pattern ((select %s (+ %s i)))))",
			b.Len, arr, s.Len, h, b.Base, b.Off, arr, s.Len))
		e.heapSet(key, sort, mkStore(h, base, arr))
		return n
	}
	// append(s, x1, ..., xn): copy-on-append (A-APPEND): fresh base holding the old array plus new elements
	base := e.allocRef("app")
	h := e.heapGet(key, sort)
	e.heapSet(key, sort, mkStore(h, base, mkSelect(h, s.Base)))
	n := SliceV{base, s.Off, s.Len, e.fresh("cap", SInt)}
	for _, a := range c.Args[1:] {
		v := e.evConv(a, et)
		e.writeElem(n, n.Len, et, v)
		n.Len = mkAdd(n.Len, "1")
	}
	e.addFact(sx(">=", n.Cap, n.Len))
	return n
}

func (e *Exec) builtinCopy(c *ast.CallExpr) Val {
	dst, ok1 := e.ev(c.Args[0]).(SliceV)
	et := elemType(e.typeOf(c.Args[0]))
	srcV := e.ev(c.Args[1])
	var srcLen string
	src, ok2 := srcV.(SliceV)
	if ok2 {
		srcLen = src.Len
	} else if sv, ok := srcV.(SV); ok {
		srcLen = sx("strlen", sv.T)
		e.addFact(sx(">=", srcLen, "0"))
	}
	if !ok1 || srcLen == "" {
		return e.havocVal("copy", types.Typ[types.Int])
	}
	n := mkIte(sx("<=", dst.Len, srcLen), dst.Len, srcLen)
	nn := e.fresh("ncopy", SInt)
	e.addFact(mkEq(nn, n))
	key, sort := elemsKey(et)
	h := e.heapGet(key, sort)
	elemSort := sort[len("(Array Int "): len(sort)-1]
	arr := e.fresh("cparr", elemSort)
	oldArr := mkSelect(h, dst.Base)
	// memmove semantics: elements [off, off+n) come from the source, everything else unchanged
	if ok2 {
		e.addFact(fmt.Sprintf("(forall ((i Int)) (! (= (select %s i) (ite (and (<= %s i) (< i (+ %s %s))) (select (select %s %s) (+ %s (- i %s))) (select %s i))) :pattern ((select %s i))))",
			arr, dst.Off, dst.Off, nn, h, src.Base, src.Off, dst.Off, oldArr, arr))
	} else {
		e.declareFun("strat", []string{SInt, SInt}, SInt)
		e.addFact(fmt.Sprintf("(forall ((i Int)) (! (= (select %s i) (ite (and (<= %s i) (< i (+ %s %s))) (strat %s (- i %s)) (select %s i))) :pattern ((select %s i))))",
			arr, dst.Off, dst.Off, nn, e.asInt(srcV), dst.Off, oldArr, arr))
	}
	e.heapSet(key, sort, mkStore(h, dst.Base, arr))
	return iv(nn)
}

// ---- intrinsics: sync, atomic, errors, fmt ---------------------------------------

func (e *Exec) intrinsic(fn *types.Func, f FuncV, args []Val, c *ast.CallExpr, resT types.Type) (Val, bool) {
	if fn.Pkg() == nil {
		// error.Error etc.
		return nil, false
	}
	p := fn.Pkg().Path()
	switch p {
	case "sync":
		switch fn.Name() {
		case "Lock", "Unlock", "RLock", "RUnlock", "Add", "Done", "Wait", "Do", "Broadcast", "Signal":
			if fn.Name() == "Lock" || fn.Name() == "RLock" || fn.Name() == "Unlock" {
				e.lockInvariant(c, fn.Name())
			}
			if fn.Name() == "Do" && len(args) == 1 {
				// sync.Once.Do(f): run f nondeterministically (first call or not)
				if lit, ok := args[0].(FuncV); ok {
					a, b := e.branch(e.fresh("once", SBool))
					e.st = a
					e.callValueNoEvent(c, lit, nil, nil)
					e.st = e.merge(e.st, b)
				}
			}
			return nil, true
		}
	case "fmt":
		switch fn.Name() {
		case "Errorf":
			r := e.allocRef("err")
			// %w wrapping: the new error wraps the wrapped operands
			e.wrapFacts(r, c, args)
			return iv(r), true
		case "Sprintf", "Sprint", "Sprintln":
			return e.havocVal("str", types.Typ[types.String]), true
		case "Println", "Printf", "Print", "Fprintf", "Fprintln", "Fprint":
			return e.havocResult("fmt", resT), true
		}
	case "errors":
		switch fn.Name() {
		case "New":
			return iv(e.allocRef("err")), true
		case "Is":
			if len(args) == 2 {
				e.declareFun("wraps", []string{SInt, SInt}, SBool)
				a, b := e.asInt(args[0]), e.asInt(args[1])
				return bv(mkAnd(mkNot(mkEq(a, "0")), mkOr(mkEq(a, b), sx("wraps", a, b)))), true
			}
		}
	case "runtime/debug", "runtime":
		return e.havocResult("rt", resT), true
	}
	return nil, false
}

func (e *Exec) wrapFacts(r string, c *ast.CallExpr, args []Val) {
	e.declareFun("wraps", []string{SInt, SInt}, SBool)
	if len(c.Args) == 0 {
		return
	}
	tv, ok := e.info().Types[c.Args[0]]
	if !ok || tv.Value == nil {
		return
	}
	format := tv.Value.ExactString()
	if !strings.Contains(format, "%w") {
		return
	}
	// identify which operand(s) are wrapped: count verbs
	verbIdx := 0
	for i := 0; i+1 < len(format); i++ {
		if format[i] != '%' {
			continue
		}
		if format[i+1] == '%' {
			i++
			continue
		}
		j := i + 1
		for j < len(format) && strings.ContainsRune("+-# 0123456789.", rune(format[j])) {
			j++
		}
		if j < len(format) {
			if format[j] == 'w' {
				// variadic args were packed into a slice (last arg)
				if sl, ok := args[len(args)-1].(SliceV); ok {
					el := e.readElem(sl, mkInt(int64(verbIdx)), types.Universe.Lookup("any").Type())
					w := e.asInt(el)
					e.addFact(sx("wraps", r, w))
					// transitivity instance: wrapping a sentinel through w
					e.addFact(fmt.Sprintf("(forall ((s Int)) (! (=> (wraps %s s) (wraps %s s)) :pattern ((wraps %s s))))", w, r, r))
				}
			}
			verbIdx++
		}
		i = j
	}
}

var _ = token.ADD
var _ *packages.Package

// havocPkgFields forgets everything known about fields of struct types declared in package path.
func (e *Exec) havocPkgFields(path string) {
	prefix := shortPkg(path) + "."
	var keys []string
	for k := range e.heapSort {
		if strings.HasPrefix(k, prefix) {
			keys = append(keys, k)
		}
	}
	sortStrings(keys)
	for _, k := range keys {
		e.st.heap[k] = e.fresh("Hx."+k, e.heapSort[k])
		e.logWrite(k, "*")
	}
}

// filterAddrs models ma.FilterAddrs(addrs, preds...) (trusted semantics of the library function: the result is a
// sub-list of addrs whose every element made every predicate return true; each predicate is run on elements of
// addrs only). The predicates are the real closures / method values of the caller: each is executed once on a
// symbolic element, its result term is generalised over the result's elements, and the captured variables it
// assigns are havoc'd (it may have run any number of times).
func (e *Exec) filterAddrs(c *ast.CallExpr, in Val, preds []Val) Val {
	t := e.typeOf(c)
	src, ok := in.(SliceV)
	if !ok {
		return e.havocVal("filtered", t)
	}
	et := elemType(t)
	e.trusted["library semantics of ma.FilterAddrs / slices.DeleteFunc (result = order-preserving sub-list whose elements satisfy every predicate / make the delete function false)"] = true
	base := e.allocRef("filtered")
	out := SliceV{Base: base, Off: "0", Len: e.fresh("flen", SInt), Cap: e.fresh("fcap", SInt)}
	e.addFact(mkAnd(sx("<=", "0", out.Len), sx("<=", out.Len, src.Len), sx("<=", out.Len, out.Cap)))
	key, sort := elemsKey(et)
	// contents of the result: some array of handles; every element occurs in the input
	arr := e.fresh("farr", SArrI)
	h := e.heapGet(key, sort)
	e.heapSet(key, sort, mkStore(h, base, arr))
	h = e.heapGet(key, sort)
	e.declareFun("fsrc", []string{SInt, SInt}, SInt)
	e.addFact(fmt.Sprintf("(forall ((j Int)) (! (=> (and (<= 0 j) (< j %s)) (and (<= 0 (fsrc %s j)) (< (fsrc %s j) %s) (= (select %s j) (select (select %s %s) (+ %s (fsrc %s j)))))) :pattern ((select %s j))))",
		out.Len, base, base, src.Len, arr, h, src.Base, src.Off, base, arr))
	// completeness (an element is dropped only if some predicate returned false on it) is collected per predicate
	type predRun struct {
		local []string
		res   string
		hx    string
	}
	var runs []predRun
	allEvaluated := true
	for pi, pv := range preds {
		// symbolic element
		hx := e.fresh("felem", SInt)
		var elem Val
		if kindOf(et) == kSlice {
			elem = e.handleSlice(hx)
		} else {
			elem = iv(hx)
		}
		// run the predicate on a copy of the state to obtain its result term; side effects: havoc assigned captures
		saved := e.st
		e.st = saved.clone()
		nf := len(e.facts)
		var res Val
		switch f := pv.(type) {
		case FuncV:
			if f.Lit != nil {
				res = e.inlineLit(f, []Val{elem}, c)
			} else if f.Fn != nil {
				res = e.callValueNoEvent(c, f, []Val{elem}, types.Typ[types.Bool])
			}
			// captured variables assigned by the predicate change arbitrarily
			if f.Lit != nil && f.Pkg != nil {
				for _, v := range assignedFreeVars(f.Lit, f.Pkg.TypesInfo) {
					if _, ok := saved.vars[v]; ok {
						saved.vars[v] = e.havocVal(v.Name(), v.Type())
					}
				}
			}
		}
		resT := ""
		if sv, ok := res.(SV); ok && sv.S == SBool {
			resT = sv.T
		}
		pcT := e.st.pc
		// facts produced while running the predicate mention the symbolic element: generalise them together with
		// the result under one quantifier over the result's positions
		local := append([]string{}, e.facts[nf:]...)
		e.facts = e.facts[:nf]
		e.st = saved
		if resT == "" {
			e.warn("FilterAddrs predicate %d could not be evaluated symbolically", pi)
			allEvaluated = false
			continue
		}
		_ = pcT
		// "the predicate returned true on this element": the run's defining facts and its result, with every symbol
		// created during the run turned into a function of the position (one run per element)
		if e.negateFilter {
			resT = mkNot(resT) // slices.DeleteFunc keeps the elements for which the function returned false
		}
		runs = append(runs, predRun{local: append([]string{}, local...), res: resT, hx: hx})
		body := mkAnd(append(local, resT)...)
		elemAt := fmt.Sprintf("(select %s j!f)", arr)
		hn := symNum(hx)
		for _, name := range freshSymbolsAfter(body, hn) {
			srt, ok := e.declared[name]
			if !ok || strings.HasPrefix(srt, "(") && !strings.HasPrefix(srt, "(Array") {
				continue // not a constant
			}
			fk := "fk." + name
			e.declareFun(fk, []string{SInt}, srt)
			body = replaceSymbol(body, name, "("+fk+" j!f)")
		}
		body = replaceSymbol(body, hx, elemAt)
		e.addFact(fmt.Sprintf("(forall ((j!f Int)) (! (=> (and (<= 0 j!f) (< j!f %s)) %s) :pattern ((select %s j!f))))", out.Len, body, arr))
	}
	// completeness: every input element is kept (at position fidx) unless one of the predicates returned false on it
	// (one run of each predicate per input element; symbols created by a run become functions of the input index)
	if allEvaluated && len(runs) > 0 {
		e.declareFun("fkept", []string{SInt, SInt}, SBool)
		e.declareFun("fidx", []string{SInt, SInt}, SInt)
		inAt := fmt.Sprintf("(select (select %s %s) (+ %s k!c))", h, src.Base, src.Off)
		var locals, negs []string
		for _, r := range runs {
			body := mkAnd(r.local...)
			res := r.res
			hn := symNum(r.hx)
			for _, name := range freshSymbolsAfter(mkAnd(body, res), hn) {
				srt, ok := e.declared[name]
				if !ok || strings.HasPrefix(srt, "(") && !strings.HasPrefix(srt, "(Array") {
					continue
				}
				fd := "fd." + name
				e.declareFun(fd, []string{SInt}, srt)
				body = replaceSymbol(body, name, "("+fd+" k!c)")
				res = replaceSymbol(res, name, "("+fd+" k!c)")
			}
			locals = append(locals, replaceSymbol(body, r.hx, inAt))
			negs = append(negs, mkNot(replaceSymbol(res, r.hx, inAt)))
		}
		kept := fmt.Sprintf("(fkept %s k!c)", base)
		e.addFact(fmt.Sprintf("(forall ((k!c Int)) (! (=> (and (<= 0 k!c) (< k!c %s)) (and %s (or %s %s))) :pattern (%s)))",
			src.Len, mkAnd(locals...), kept, mkOr(negs...), inAt))
		e.addFact(fmt.Sprintf("(forall ((k!c Int)) (! (=> (fkept %s k!c) (and (<= 0 (fidx %s k!c)) (< (fidx %s k!c) %s) (= (fsrc %s (fidx %s k!c)) k!c) (= (select %s (fidx %s k!c)) %s))) :pattern ((fkept %s k!c))))",
			base, base, base, out.Len, base, base, arr, base, inAt, base))
	}
	return out
}

// hasFreshAfter reports whether term t mentions a generated symbol numbered above the one in name.
func hasFreshAfter(t, name string) bool {
	i := strings.LastIndex(name, "!")
	if i < 0 {
		return false
	}
	n, err := strconv.Atoi(name[i+1:])
	if err != nil {
		return false
	}
	return !invariantTerm(t, n)
}

func symNum(name string) int {
	i := strings.LastIndex(name, "!")
	if i < 0 {
		return 0
	}
	n, _ := strconv.Atoi(name[i+1:])
	return n
}

var symRe = regexp.MustCompile(`[A-Za-z_$][A-Za-z0-9_.$]*![0-9]+`)

// freshSymbolsAfter lists generated symbols (name!N) in t with N > n.
func freshSymbolsAfter(t string, n int) []string {
	seen := map[string]bool{}
	var out []string
	for _, m := range symRe.FindAllString(t, -1) {
		if symNum(m) > n && !seen[m] {
			seen[m] = true
			out = append(out, m)
		}
	}
	// longer names first so that replacement of a prefix does not corrupt a longer symbol
	sort.Slice(out, func(i, j int) bool { return len(out[i]) > len(out[j]) })
	return out
}

// replaceSymbol replaces whole-token occurrences of sym in t.
func replaceSymbol(t, sym, by string) string {
	var b strings.Builder
	i := 0
	for i < len(t) {
		j := strings.Index(t[i:], sym)
		if j < 0 {
			b.WriteString(t[i:])
			break
		}
		j += i
		end := j + len(sym)
		okL := j == 0 || t[j-1] == ' ' || t[j-1] == '('
		okR := end == len(t) || t[end] == ' ' || t[end] == ')'
		b.WriteString(t[i:j])
		if okL && okR {
			b.WriteString(by)
		} else {
			b.WriteString(sym)
		}
		i = end
	}
	return b.String()
}

// lockInvariant implements the monitor rule for lock fields with a declared invariant
// (`lockinv Type.field(x *Type) = expr`): assumed when the lock is taken, proved when a write lock is released.
func (e *Exec) lockInvariant(c *ast.CallExpr, op string) {
	sel, ok := ast.Unparen(c.Fun).(*ast.SelectorExpr)
	if !ok {
		return
	}
	fsel, ok := ast.Unparen(sel.X).(*ast.SelectorExpr) // owner.field
	if !ok {
		return
	}
	ot := e.typeOf(fsel.X)
	n, ok := derefNamed(ot)
	if !ok || n.Obj().Pkg() == nil {
		return
	}
	sf := e.g.specs[n.Obj().Pkg().Path()]
	if sf == nil || sf.LockInvs == nil {
		return
	}
	inv := sf.LockInvs[n.Obj().Name()+"."+fsel.Sel.Name]
	if inv == nil {
		return
	}
	owner := e.ev(fsel.X)
	env := &SpecEnv{cur: e.st, old: e.old, names: map[string]boundVar{inv.Params[0].Name: {owner, ot}}, pkg: e.g.pkgs[n.Obj().Pkg().Path()], sf: sf}
	t := e.specBool(inv.Body, env)
	if op == "Unlock" {
		// numbered per lock, so that a new invariant on another lock does not rename these obligations
		if e.lockSeqBy == nil {
			e.lockSeqBy = map[string]int{}
		}
		lk := n.Obj().Name() + "." + fsel.Sel.Name
		e.lockSeqBy[lk]++
		e.oblige(fmt.Sprintf("lock-inv %s@unlock#%d", lk, e.lockSeqBy[lk]), "assert", "monitor invariant re-established at Unlock: "+inv.Body.Text, t)
		return
	}
	e.assume(t)
	e.trusted["monitor invariant of "+n.Obj().Name()+"."+fsel.Sel.Name+" assumed at Lock (proved at every Unlock of the functions under contract)"] = true
}

// havocPointerArgs: an unspecified callee may write through pointer arguments: all fields of struct objects whose
// address is passed (static type pointer-to-struct at the call site) are forgotten.
func (e *Exec) havocPointerArgs(c *ast.CallExpr, args []Val, callee *types.Func) {
	sets := map[string]*locSet{}
	add := func(key, ref string) {
		ls := sets[key]
		if ls == nil {
			ls = &locSet{}
			sets[key] = ls
		}
		ls.refs = append(ls.refs, ref)
	}
	for i, a := range c.Args {
		if i >= len(args) {
			break
		}
		t := e.typeOf(a)
		if t == nil {
			continue
		}
		pt, ok := t.Underlying().(*types.Pointer)
		if !ok {
			continue
		}
		sv, ok := args[i].(SV)
		if !ok {
			continue
		}
		if kindOf(pt.Elem()) == kStruct {
			e.warn("unspecified callee %s may write through pointer argument %d (%s): its fields are havoc'd", exprText(c.Fun), i, types.TypeString(pt.Elem(), nil))
			e.addStructLocs(sv.T, pt.Elem(), add)
		}
	}
	// slices handed over as interface values (sort.Slice(x, less), ...): the callee may permute / overwrite them
	var idx []int
	readOnly := false
	if callee != nil && callee.Pkg() != nil {
		switch callee.Pkg().Path() {
		case "fmt", "errors", "log", "log/slog", "strings", "bytes", "reflect", "encoding/json", "slices":
			readOnly = true // formatting / inspection only
		}
	}
	for i := range e.rawArgs[c] {
		if !readOnly {
			idx = append(idx, i)
		}
	}
	sort.Ints(idx)
	for _, i := range idx {
		raw := e.rawArgs[c][i]
		if sl, ok := raw.V.(SliceV); ok && sl.Base != "0" {
			key, srt := elemsKey(elemType(raw.T))
			if e.heapSort[key] == "" {
				e.heapGet(key, srt)
			}
			e.warn("unspecified callee %s receives slice argument %d as an interface: its contents are havoc'd", exprText(c.Fun), i)
			add(key, sl.Base)
		}
	}
	if len(sets) > 0 {
		e.havocLocs(sets)
	}
}
