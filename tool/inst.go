package main

// Quantifier pre-processing for the generated VCs: skolemisation of the negated goal and of
// existential hypotheses, followed by instantiation of universal hypotheses with the ground terms
// that occur in matching syntactic contexts (the complete-instantiation strategy of the array property
// fragment, generalised to our heap encoding). The instances are *added*; the original quantified
// hypotheses stay in the "full" variant of the query and are dropped in the "ground" variant. Both are
// sound: an instance of a universal hypothesis is implied by it, and dropping hypotheses only weakens.

import (
	"fmt"
	"os"
	"regexp"
	"sort"
	"strings"
)

type Sx struct {
	A string
	L []*Sx
	// memoised printed form (nodes are immutable once built)
	str string
}

func (s *Sx) isAtom() bool { return s.L == nil }

func parseSx(src string) *Sx {
	pos := 0
	var parse func() *Sx
	parse = func() *Sx {
		for pos < len(src) && (src[pos] == ' ' || src[pos] == '\n' || src[pos] == '\t') {
			pos++
		}
		if pos >= len(src) {
			return &Sx{A: ""}
		}
		if src[pos] == '(' {
			pos++
			n := &Sx{L: []*Sx{}}
			for {
				for pos < len(src) && (src[pos] == ' ' || src[pos] == '\n' || src[pos] == '\t') {
					pos++
				}
				if pos >= len(src) {
					return n
				}
				if src[pos] == ')' {
					pos++
					return n
				}
				n.L = append(n.L, parse())
			}
		}
		start := pos
		for pos < len(src) && src[pos] != ' ' && src[pos] != '(' && src[pos] != ')' && src[pos] != '\n' && src[pos] != '\t' {
			pos++
		}
		return &Sx{A: src[start:pos]}
	}
	return parse()
}

func (s *Sx) String() string {
	if s.isAtom() {
		return s.A
	}
	if s.str != "" {
		return s.str
	}
	var b strings.Builder
	s.write(&b)
	s.str = b.String()
	return s.str
}

func (s *Sx) write(b *strings.Builder) {
	if s.isAtom() {
		b.WriteString(s.A)
		return
	}
	if s.str != "" {
		b.WriteString(s.str)
		return
	}
	b.WriteByte('(')
	for i, c := range s.L {
		if i > 0 {
			b.WriteByte(' ')
		}
		c.write(b)
	}
	b.WriteByte(')')
}

func atom(a string) *Sx       { return &Sx{A: a} }
func list(xs ...*Sx) *Sx      { return &Sx{L: xs} }
func (s *Sx) head() string {
	if s.isAtom() || len(s.L) == 0 || !s.L[0].isAtom() {
		return ""
	}
	return s.L[0].A
}

func sxNot(x *Sx) *Sx {
	if x.head() == "not" && len(x.L) == 2 {
		return x.L[1]
	}
	if x.isAtom() && x.A == "true" {
		return atom("false")
	}
	if x.isAtom() && x.A == "false" {
		return atom("true")
	}
	return list(atom("not"), x)
}

func sxNary(op string, xs []*Sx) *Sx {
	if len(xs) == 1 {
		return xs[0]
	}
	if len(xs) == 0 {
		if op == "and" {
			return atom("true")
		}
		return atom("false")
	}
	return list(append([]*Sx{atom(op)}, xs...)...)
}

type instCtx struct {
	n       int
	decls   []string
	sortOf  map[string]string // skolem -> sort
	hasQ    bool
	budget  int // per-quantifier instance budget (0 = default)
	aliases map[string][]string // merge constant -> printed branches of its defining ite (transitively)
	canonCache map[string]string
	rowAlias map[string]string  // named array stored as a row of a two-level heap -> root of that heap's rows
}

func binders(b *Sx) (names, sorts []string) {
	for _, v := range b.L {
		if len(v.L) == 2 {
			names = append(names, v.L[0].A)
			sorts = append(sorts, v.L[1].String())
		}
	}
	return
}

// stripBang removes (! body :pattern ...) annotations.
func stripBang(x *Sx) *Sx {
	for x.head() == "!" && len(x.L) >= 2 {
		x = x.L[1]
	}
	return x
}

func subst(x *Sx, m map[string]*Sx) *Sx {
	if len(m) == 0 {
		return x
	}
	if x.isAtom() {
		if r, ok := m[x.A]; ok {
			return r
		}
		return x
	}
	h := x.head()
	if (h == "forall" || h == "exists") && len(x.L) == 3 {
		names, _ := binders(x.L[1])
		shadow := false
		for _, n := range names {
			if _, ok := m[n]; ok {
				shadow = true
			}
		}
		if shadow {
			m2 := map[string]*Sx{}
			for k, v := range m {
				m2[k] = v
			}
			for _, n := range names {
				delete(m2, n)
			}
			return list(x.L[0], x.L[1], subst(x.L[2], m2))
		}
	}
	out := make([]*Sx, len(x.L))
	changed := false
	for i, c := range x.L {
		out[i] = subst(c, m)
		if out[i] != c {
			changed = true
		}
	}
	if !changed {
		return x
	}
	return &Sx{L: out}
}

func (ic *instCtx) skolems(b *Sx, hint string) map[string]*Sx {
	names, sorts := binders(b)
	m := map[string]*Sx{}
	for i, n := range names {
		ic.n++
		sk := fmt.Sprintf("sk!%d!%s", ic.n, strings.Map(func(r rune) rune {
			if r == '!' {
				return '_'
			}
			return r
		}, n))
		ic.decls = append(ic.decls, fmt.Sprintf("(declare-const %s %s)", sk, sorts[i]))
		ic.sortOf[sk] = sorts[i]
		m[n] = atom(sk)
	}
	return m
}

// pos rewrites a formula occurring positively: existentials outside universals are skolemised.
func (ic *instCtx) pos(x *Sx) *Sx {
	x = stripBangTop(x)
	switch x.head() {
	case "and", "or":
		out := []*Sx{x.L[0]}
		for _, c := range x.L[1:] {
			out = append(out, ic.pos(c))
		}
		return &Sx{L: out}
	case "=>":
		if len(x.L) == 3 {
			return list(atom("or"), ic.neg(x.L[1]), ic.pos(x.L[2]))
		}
	case "not":
		if len(x.L) == 2 {
			return ic.neg(x.L[1])
		}
	case "exists":
		if len(x.L) == 3 {
			ic.hasQ = true
			return ic.pos(subst(stripBang(x.L[2]), ic.skolems(x.L[1], "e")))
		}
	case "forall":
		ic.hasQ = true
		return x
	}
	return x
}

func stripBangTop(x *Sx) *Sx { return x }

// neg returns a formula equivalent to (not x) with universals of x skolemised.
func (ic *instCtx) neg(x *Sx) *Sx {
	switch x.head() {
	case "and":
		out := []*Sx{atom("or")}
		for _, c := range x.L[1:] {
			out = append(out, ic.neg(c))
		}
		return &Sx{L: out}
	case "or":
		out := []*Sx{atom("and")}
		for _, c := range x.L[1:] {
			out = append(out, ic.neg(c))
		}
		return &Sx{L: out}
	case "=>":
		if len(x.L) == 3 {
			return list(atom("and"), ic.pos(x.L[1]), ic.neg(x.L[2]))
		}
	case "not":
		if len(x.L) == 2 {
			return ic.pos(x.L[1])
		}
	case "forall":
		if len(x.L) == 3 {
			ic.hasQ = true
			return ic.neg(subst(stripBang(x.L[2]), ic.skolems(x.L[1], "a")))
		}
	case "exists":
		if len(x.L) == 3 {
			ic.hasQ = true
			return list(atom("forall"), x.L[1], sxNot(stripBang(x.L[2])))
		}
	}
	return sxNot(x)
}

// ---- ground-term collection ------------------------------------------------------

func containsAny(x *Sx, bound map[string]bool) bool {
	if len(bound) == 0 {
		return false
	}
	if x.isAtom() {
		return bound[x.A]
	}
	for _, c := range x.L {
		if containsAny(c, bound) {
			return true
		}
	}
	return false
}

type ctxKey string


// contexts of argument position k of application x (others printed if ground w.r.t. bound)
func (ic *instCtx) ctxKeys(x *Sx, k int, bound map[string]bool) []ctxKey {
	h := x.head()
	if h == "" {
		return nil
	}
	var keys []ctxKey
	switch h {
	case "select":
		if k == 2 && !containsAny(x.L[1], bound) {
			keys = append(keys, ctxKey("select|"+x.L[1].String()))
			// arrays derived from each other by store share index candidates: use the root array name too
			keys = append(keys, ctxKey("selroot|"+ic.arrayRoot(x.L[1])))
		} else if k == 2 {
			keys = append(keys, ctxKey("selany"))
		}
	case "+":
		// (+ A v): offset context
		if len(x.L) == 3 {
			o := x.L[3-k]
			if !containsAny(o, bound) {
				keys = append(keys, ctxKey("+|"+o.String()))
				// the same offset read from another heap version (map-of-slices headers) exchanges candidates
				if ck := ic.canon(o.String()); ck != o.String() {
					keys = append(keys, ctxKey("+~"+ck))
				}
			}
			// an offset that is a merge constant (= (ite c a b)) also stands for its branches
			if o.isAtom() {
				for _, alias := range ic.aliases[o.A] {
					keys = append(keys, ctxKey("+|"+alias))
				}
			}
		}
	case "store", "and", "or", "not", "=>", "ite", "=", "<", "<=", ">", ">=", "-", "*", "forall", "exists", "!", "div", "mod", "distinct":
		return nil
	default:
		// uninterpreted function / heap-like function
		keys = append(keys, ctxKey(fmt.Sprintf("%s|%d", h, k)))
	}
	return keys
}

func (ic *instCtx) canon(s string) string {
	if c, ok := ic.canonCache[s]; ok {
		return c
	}
	if ic.canonCache == nil {
		ic.canonCache = map[string]string{}
	}
	c := canonHeapNames(s)
	ic.canonCache[s] = c
	return c
}

func (ic *instCtx) arrayRoot(a *Sx) string {
	for a.head() == "store" && len(a.L) == 4 {
		a = a.L[1]
	}
	if a.head() == "select" && len(a.L) == 3 {
		// a row of a two-level heap (map contents, slice contents): all versions and rows share candidates
		return "sel(" + ic.arrayRoot(a.L[1]) + ")"
	}
	if a.head() == "ite" && len(a.L) == 4 {
		return ic.arrayRoot(a.L[2])
	}
	s := a.String()
	if r, ok := ic.rowAlias[s]; ok {
		return r // a named row stored into a two-level heap
	}
	// named heap versions: Hm.key!n, Hh.key!n, H.key!n, H0.key -> key
	for _, p := range []string{"Hm.", "Hh.", "Hc.", "Hx.", "Hl.", "Hv.", "H0.", "H."} {
		if strings.HasPrefix(s, p) {
			s = s[len(p):]
			if i := strings.LastIndex(s, "!"); i >= 0 {
				s = s[:i]
			}
			return s
		}
	}
	return s
}

// collectGround records ground argument terms per context over formula x (not descending into quantifier bodies).
func (ic *instCtx) collectGround(x *Sx, into map[ctxKey]map[string]*Sx) {
	if x.isAtom() {
		return
	}
	h := x.head()
	if h == "forall" || h == "exists" {
		return
	}
	for k := 1; k < len(x.L); k++ {
		for _, key := range ic.ctxKeys(x, k, nil) {
			m := into[key]
			if m == nil {
				m = map[string]*Sx{}
				into[key] = m
			}
			s := x.L[k].String()
			lim := 300
			if strings.HasPrefix(s, "(str.of ") {
				lim = 1200 // map keys built from byte strings are long but important candidates
			}
			if len(s) < lim && strings.Count(s, "(sub.") <= 2 {
				m[s] = x.L[k]
			}
		}
	}
	for _, c := range x.L {
		ic.collectGround(c, into)
	}
}

// varContexts finds the contexts in which bound variable v occurs directly as an argument.
func (ic *instCtx) varContexts(x *Sx, v string, bound map[string]bool, out map[ctxKey]bool) {
	if x.isAtom() {
		return
	}
	for k := 1; k < len(x.L); k++ {
		if x.L[k].isAtom() && x.L[k].A == v {
			for _, key := range ic.ctxKeys(x, k, bound) {
				out[key] = true
			}
		}
	}
	for _, c := range x.L {
		ic.varContexts(c, v, bound, out)
	}
}

type qsite struct {
	path []int // path to the forall node inside the assertion
}

func findForalls(x *Sx, path []int, out *[][]int) {
	if x.isAtom() {
		return
	}
	if x.head() == "forall" {
		*out = append(*out, append([]int{}, path...))
		return // do not descend: inner quantifiers are handled after instantiation
	}
	if x.head() == "exists" || x.head() == "not" || x.head() == "=" || x.head() == "ite" {
		return // only positive, monotone contexts (and/or/=> consequent handled by pos())
	}
	for i, c := range x.L {
		if i == 0 {
			continue
		}
		findForalls(c, append(path, i), out)
	}
}

func at(x *Sx, path []int) *Sx {
	for _, i := range path {
		x = x.L[i]
	}
	return x
}

func replaceAt(x *Sx, path []int, r *Sx) *Sx {
	if len(path) == 0 {
		return r
	}
	out := make([]*Sx, len(x.L))
	copy(out, x.L)
	out[path[0]] = replaceAt(x.L[path[0]], path[1:], r)
	return &Sx{L: out}
}

const maxInstPerQuant = 300
const maxInstTotal = 6000

// instantiate performs rounds of context-based instantiation. Returns the added instance assertions.
func (ic *instCtx) instantiate(asserts []*Sx, rounds int) []*Sx {
	mergeAliases := map[string][]string{}
	ic.aliases = mergeAliases
	for _, a := range asserts {
		if a.head() == "=" && len(a.L) == 3 && a.L[1].isAtom() && a.L[2].head() == "ite" && len(a.L[2].L) == 4 {
			mergeAliases[a.L[1].A] = append(mergeAliases[a.L[1].A], a.L[2].L[2].String(), a.L[2].L[3].String())
		}
	}
	for k := 0; k < 3; k++ { // transitive closure (bounded)
		for name, al := range mergeAliases {
			for _, x := range al {
				if more, ok := mergeAliases[x]; ok {
					for _, m := range more {
						dup := false
						for _, y := range mergeAliases[name] {
							if y == m {
								dup = true
							}
						}
						if !dup {
							mergeAliases[name] = append(mergeAliases[name], m)
						}
					}
				}
			}
		}
	}
	ic.rowAlias = map[string]string{}
	var scanRows func(x *Sx)
	scanRows = func(x *Sx) {
		if x.isAtom() {
			return
		}
		if x.head() == "store" && len(x.L) == 4 && x.L[3].isAtom() && strings.Contains(x.L[3].A, "!") {
			if _, dup := ic.rowAlias[x.L[3].A]; !dup {
				if root := ic.arrayRoot(x.L[1]); !strings.Contains(root, "!") {
					ic.rowAlias[x.L[3].A] = "sel(" + root + ")"
				}
			}
		}
		for _, c := range x.L {
			scanRows(c)
		}
	}
	for _, a := range asserts {
		scanRows(a)
	}
	seen := map[string]bool{}
	for _, a := range asserts {
		seen[a.String()] = true
	}
	var added []*Sx
	all := append([]*Sx{}, asserts...)
	done := map[string]bool{} // (assertion, path, tuple) already instantiated
	for r := 0; r < rounds; r++ {
		ground := map[ctxKey]map[string]*Sx{}
		for _, a := range all {
			ic.collectGround(a, ground)
		}
		var newOnes []*Sx
		for _, a := range all {
			var paths [][]int
			findForalls(a, nil, &paths)
			for _, p := range paths {
				q := at(a, p)
				if len(q.L) != 3 {
					continue
				}
				names, _ := binders(q.L[1])
				body := stripBang(q.L[2])
				bound := map[string]bool{}
				for _, n := range names {
					bound[n] = true
				}
				// declared patterns restrict where candidate terms are looked for
				var patTerms []*Sx
				if q.L[2].head() == "!" {
					for k := 2; k+1 < len(q.L[2].L); k += 2 {
						if q.L[2].L[k].isAtom() && q.L[2].L[k].A == ":pattern" {
							patTerms = append(patTerms, q.L[2].L[k+1])
						}
					}
				}
				// candidate selection is sequential: a variable whose contexts mention other bound variables gets its
				// candidates after those have been substituted
				budget := maxInstPerQuant
				if ic.budget > 0 {
					budget = ic.budget
				}
				dkPrefix := fmt.Sprintf("%p|%v|", q, p)
				var rec func(b *Sx, rest []string, tuple string)
				rec = func(b *Sx, rest []string, tuple string) {
					if budget <= 0 {
						return
					}
					if len(rest) == 0 {
						dk := dkPrefix + tuple
						if done[dk] {
							return
						}
						done[dk] = true
						budget--
						inst := ic.pos(b)
						na := replaceAt(a, p, inst)
						s := na.String()
						if !seen[s] && len(s) < 20000 {
							seen[s] = true
							newOnes = append(newOnes, na)
						}
						return
					}
					restBound := map[string]bool{}
					for _, n := range rest {
						restBound[n] = true
					}
					// pick the first remaining variable that has candidates now
					for vi, n := range rest {
						ctxs := map[ctxKey]bool{}
						if len(patTerms) > 0 {
							for _, pt := range patTerms {
								ic.varContexts(pt, n, restBound, ctxs)
							}
						}
						if len(ctxs) == 0 {
							ic.varContexts(b, n, restBound, ctxs)
						}
						typed := 0
						for c := range ctxs {
							if !genericCtx(c) {
								typed++
							}
						}
						if typed > 0 {
							for c := range ctxs {
								if genericCtx(c) {
									delete(ctxs, c)
								}
							}
						}
						set := map[string]*Sx{}
						for c := range ctxs {
							if c == "+any" {
								continue
							}
							for s, t := range ground[c] {
								set[s] = t
							}
						}
						fallback := false
						if len(set) == 0 && ctxs["+any"] && os.Getenv("VERIF_NOANY") == "" {
							// offsets equal only semantically (other heap version, merged header): any index term
							// (goal-related ones first, few of them)
							fallback = true
							for s, t := range ground["+any"] {
								if len(s) < 160 {
									set[s] = t
								}
							}
						}
						if dbg := os.Getenv("VERIF_INSTDEBUG"); dbg != "" && strings.Contains(q.L[1].String(), dbg) {
							fmt.Fprintf(os.Stderr, "instdebug round %d var %s ctxs %v candidates %d budget %d\n", r, n, ctxs, len(set), budget)
						}
						if len(set) == 0 {
							continue
						}
						var keys []string
						for s := range set {
							keys = append(keys, s)
						}
						sort.Slice(keys, func(x, y int) bool {
							kx, ky := strings.Contains(keys[x], "sk!"), strings.Contains(keys[y], "sk!")
							if kx != ky {
								return kx
							}
							if len(keys[x]) != len(keys[y]) {
								return len(keys[x]) < len(keys[y])
							}
							return keys[x] < keys[y]
						})
						others := append(append([]string{}, rest[:vi]...), rest[vi+1:]...)
						per := budget
						if len(others) > 0 && per > 24 {
							per = 24 // leave room for the remaining variables
						}
						if fallback && per > 16 {
							per = 16
						}
						for ci, s := range keys {
							if ci >= per || budget <= 0 {
								break
							}
							if len(others) == 0 && done[dkPrefix+tuple+s+"|"] {
								continue // instantiated in an earlier round
							}
							rec(subst(b, map[string]*Sx{n: set[s]}), others, tuple+s+"|")
						}
						return
					}
				}
				// patterns mention bound variables by name: keep them in sync with substitution by instantiating
				// pattern terms too (they are only used for context lookup)
				rec(body, names, "")
				if len(added)+len(newOnes) > maxInstTotal {
					break
				}
			}
			if len(added)+len(newOnes) > maxInstTotal {
				break
			}
		}
		if len(newOnes) == 0 {
			break
		}
		added = append(added, newOnes...)
		all = append(all, newOnes...)
		if len(added) > maxInstTotal {
			break
		}
	}
	return added
}

// dropForalls replaces universally quantified subformulas in positive positions by true (weakening).
func dropForalls(x *Sx) *Sx {
	if x.isAtom() {
		return x
	}
	switch x.head() {
	case "forall":
		return atom("true")
	case "and", "or":
		out := []*Sx{x.L[0]}
		for _, c := range x.L[1:] {
			out = append(out, dropForalls(c))
		}
		return &Sx{L: out}
	}
	if hasQuant(x) {
		// quantifier in a position we do not understand: drop the whole assertion part (weakening only if positive;
		// pos() has normalised implications and negations, so remaining cases are = / ite)
		return atom("true")
	}
	return x
}

func hasQuant(x *Sx) bool {
	if x.isAtom() {
		return false
	}
	if h := x.head(); h == "forall" || h == "exists" {
		return true
	}
	for _, c := range x.L {
		if hasQuant(c) {
			return true
		}
	}
	return false
}

// flattenAssert splits an assertion into smaller ones: top-level conjunctions, and disjunctions with a
// single conjunctive member (guards distributed), so that instantiating one quantifier does not copy its siblings.
func flattenAssert(x *Sx, out *[]*Sx) {
	switch x.head() {
	case "and":
		for _, c := range x.L[1:] {
			flattenAssert(c, out)
		}
		return
	case "or":
		// (or g1 .. gn (and c1 .. cm)) with small guards
		ai := -1
		small := true
		for i, c := range x.L[1:] {
			if c.head() == "and" {
				if ai >= 0 {
					ai = -2
					break
				}
				ai = i + 1
			} else if len(c.String()) > 200 || hasQuant(c) {
				small = false
			}
		}
		if ai > 0 && small {
			for _, c := range x.L[ai].L[1:] {
				parts := []*Sx{atom("or")}
				for i, g := range x.L[1:] {
					if i+1 == ai {
						continue
					}
					parts = append(parts, g)
				}
				parts = append(parts, c)
				flattenAssert(&Sx{L: parts}, out)
			}
			return
		}
	}
	if x.isAtom() && x.A == "true" {
		return
	}
	*out = append(*out, x)
}

func genericCtx(c ctxKey) bool {
	s := string(c)
	return strings.HasPrefix(s, "root|") || strings.HasPrefix(s, "dyntype|") || strings.HasPrefix(s, "subtag|") ||
		strings.HasPrefix(s, "strlen|") || s == "selany" || strings.HasPrefix(s, "selroot|ghost_") || strings.HasPrefix(s, "select|H0.ghost_")
}

var heapVerRe = regexp.MustCompile(`\b(?:Hm|Hh|Hc|Hx|Hl|Hv|H0|H)\.([A-Za-z0-9_.#:$-]+?)(?:![0-9]+)?([ )])`)

// canonHeapNames replaces versioned heap array names by their key (H.map_dom!70, H0.map_dom -> map_dom).
func canonHeapNames(s string) string {
	return heapVerRe.ReplaceAllString(s, "$1$2")
}

// abbreviate names long ground applications of uninterpreted functions (pure calls, string conversions): every
// maximal-by-construction (innermost first) ground subterm with head str.of / uf.* whose printed form is long gets a
// constant with a defining equality. Skolemised goals then mention short keys that serve as instantiation candidates.
func (ic *instCtx) abbreviate(asserts []*Sx, funSort map[string]string) []*Sx {
	names := map[string]string{}
	var defs []*Sx
	n := 0
	var walk func(x *Sx, bound map[string]bool) (*Sx, bool)
	walk = func(x *Sx, bound map[string]bool) (*Sx, bool) {
		if x.isAtom() {
			return x, !bound[x.A]
		}
		h := x.head()
		if h == "forall" || h == "exists" {
			if len(x.L) != 3 {
				return x, false
			}
			nb := map[string]bool{}
			for k := range bound {
				nb[k] = true
			}
			ns, _ := binders(x.L[1])
			for _, v := range ns {
				nb[v] = true
			}
			body, _ := walk(x.L[2], nb)
			if body == x.L[2] {
				return x, false
			}
			return &Sx{L: []*Sx{x.L[0], x.L[1], body}}, false
		}
		if h == "!" {
			// (! body :pattern (...)): patterns are rewritten consistently with the body
			out := make([]*Sx, len(x.L))
			changed := false
			for i, c := range x.L {
				nc, _ := walk(c, bound)
				out[i] = nc
				if nc != c {
					changed = true
				}
			}
			if !changed {
				return x, false
			}
			return &Sx{L: out}, false
		}
		ground := true
		changed := false
		out := make([]*Sx, len(x.L))
		for i, c := range x.L {
			nc, g := walk(c, bound)
			out[i] = nc
			if nc != c {
				changed = true
			}
			if !g && i > 0 {
				ground = false
			}
		}
		r := x
		if changed {
			r = &Sx{L: out}
		}
		if ground && (h == "str.of" || strings.HasPrefix(h, "uf.")) {
			if srt, ok := funSort[h]; ok && srt == "Int" {
				s := r.String()
				if len(s) > 160 {
					nm, ok := names[s]
					if !ok {
						n++
						nm = fmt.Sprintf("abbr!!%d", n)
						names[s] = nm
						ic.decls = append(ic.decls, fmt.Sprintf("(declare-const %s Int)", nm))
						defs = append(defs, list(atom("="), atom(nm), r))
					}
					return atom(nm), true
				}
			}
		}
		return r, ground
	}
	out := make([]*Sx, 0, len(asserts))
	for _, a := range asserts {
		na, _ := walk(a, map[string]bool{})
		out = append(out, na)
	}
	return append(defs, out...)
}

var declFunRe = regexp.MustCompile(`\(declare-fun ([^ ]+) \([^)]*(?:\([^)]*\)[^)]*)*\) ([A-Za-z]+)\)`)

func funSorts(head string) map[string]string {
	m := map[string]string{}
	for _, sm := range declFunRe.FindAllStringSubmatch(head, -1) {
		m[sm[1]] = sm[2]
	}
	return m
}
