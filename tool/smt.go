package main

// SMT term construction (plain s-expression strings with light constant folding)
// and the solver portfolio.

import (
	"bytes"
	"context"
	"fmt"
	"os"
	"os/exec"
	"path/filepath"
	"strings"
	"sync"
	"time"
)

const (
	SInt  = "Int"
	SBool = "Bool"
	SArrI = "(Array Int Int)"
	SArrB = "(Array Int Bool)"
)

func arrSort(elem string) string { return "(Array Int " + elem + ")" }

const (
	tTrue  = "true"
	tFalse = "false"
)

func sx(op string, args ...string) string {
	return "(" + op + " " + strings.Join(args, " ") + ")"
}

func mkNot(a string) string {
	switch a {
	case tTrue:
		return tFalse
	case tFalse:
		return tTrue
	}
	if strings.HasPrefix(a, "(not ") && balancedTail(a[5:len(a)-1]) {
		return a[5 : len(a)-1]
	}
	return "(not " + a + ")"
}

// balancedTail reports whether s is a single balanced term (so "(not X)" can be unwrapped).
func balancedTail(s string) bool {
	depth := 0
	for i, c := range s {
		switch c {
		case '(':
			depth++
		case ')':
			depth--
			if depth == 0 && i != len(s)-1 {
				return false
			}
			if depth < 0 {
				return false
			}
		case ' ':
			if depth == 0 {
				return false
			}
		}
	}
	return depth == 0
}

func mkAnd(xs ...string) string {
	var out []string
	for _, x := range xs {
		if x == tTrue {
			continue
		}
		if x == tFalse {
			return tFalse
		}
		out = append(out, x)
	}
	switch len(out) {
	case 0:
		return tTrue
	case 1:
		return out[0]
	}
	return "(and " + strings.Join(out, " ") + ")"
}

func mkOr(xs ...string) string {
	var out []string
	for _, x := range xs {
		if x == tFalse {
			continue
		}
		if x == tTrue {
			return tTrue
		}
		out = append(out, x)
	}
	switch len(out) {
	case 0:
		return tFalse
	case 1:
		return out[0]
	}
	return "(or " + strings.Join(out, " ") + ")"
}

func mkImp(a, b string) string {
	if a == tTrue {
		return b
	}
	if a == tFalse || b == tTrue {
		return tTrue
	}
	if b == tFalse {
		return mkNot(a)
	}
	return "(=> " + a + " " + b + ")"
}

func mkEq(a, b string) string {
	if a == b {
		return tTrue
	}
	if isIntLit(a) && isIntLit(b) {
		return tFalse // distinct literals (identical handled above)
	}
	return "(= " + a + " " + b + ")"
}

func isIntLit(a string) bool {
	if a == "" {
		return false
	}
	if a[0] == '(' {
		// (- 5)
		if strings.HasPrefix(a, "(- ") && strings.HasSuffix(a, ")") {
			return isIntLit(a[3 : len(a)-1])
		}
		return false
	}
	for _, c := range a {
		if c < '0' || c > '9' {
			return false
		}
	}
	return true
}

func mkIte(c, a, b string) string {
	if c == tTrue {
		return a
	}
	if c == tFalse {
		return b
	}
	if a == b {
		return a
	}
	return "(ite " + c + " " + a + " " + b + ")"
}

func mkSelect(a, i string) string {
	// select(store(a, i, v), i) == v  (syntactically equal index)
	for strings.HasPrefix(a, "(store ") {
		parts := splitSexp(a[1 : len(a)-1])
		if len(parts) != 4 {
			break
		}
		if parts[2] == i {
			return parts[3]
		}
		if isIntLit(parts[2]) && isIntLit(i) {
			a = parts[1] // distinct literals
			continue
		}
		break
	}
	return "(select " + a + " " + i + ")"
}

// splitSexp splits the inside of a list into its top-level elements.
func splitSexp(s string) []string {
	var out []string
	depth := 0
	start := -1
	for i := 0; i < len(s); i++ {
		c := s[i]
		switch {
		case c == '(':
			if depth == 0 && start < 0 {
				start = i
			}
			depth++
		case c == ')':
			depth--
			if depth == 0 {
				out = append(out, s[start:i+1])
				start = -1
			}
		case c == ' ':
			if depth == 0 && start >= 0 {
				out = append(out, s[start:i])
				start = -1
			}
		default:
			if depth == 0 && start < 0 {
				start = i
			}
		}
	}
	if start >= 0 {
		out = append(out, s[start:])
	}
	return out
}
func mkStore(a, i, v string) string {
	// store(store(a, i, _), i, v) == store(a, i, v)
	if strings.HasPrefix(a, "(store ") {
		parts := splitSexp(a[1 : len(a)-1])
		if len(parts) == 4 && parts[2] == i {
			a = parts[1]
		}
	}
	return "(store " + a + " " + i + " " + v + ")"
}

func mkInt(n int64) string {
	if n < 0 {
		if n == -9223372036854775808 {
			return "(- 9223372036854775808)"
		}
		return fmt.Sprintf("(- %d)", -n)
	}
	return fmt.Sprintf("%d", n)
}

func mkBigInt(s string) string {
	if strings.HasPrefix(s, "-") {
		return "(- " + s[1:] + ")"
	}
	return s
}

func mkAdd(a, b string) string {
	if b == "0" {
		return a
	}
	if a == "0" {
		return b
	}
	// right-nested normal form (+ x (+ y z)): index terms built by re-slicing keep the original offset as
	// the first summand, which is what quantifier instantiation matches on
	if strings.HasPrefix(a, "(+ ") {
		if parts := splitSexp(a[1 : len(a)-1]); len(parts) == 3 {
			return "(+ " + parts[1] + " " + mkAdd(parts[2], b) + ")"
		}
	}
	return "(+ " + a + " " + b + ")"
}
func mkSub(a, b string) string {
	if b == "0" {
		return a
	}
	return "(- " + a + " " + b + ")"
}

// ---------------------------------------------------------------------------

type SolverResult struct {
	Status  string // unsat, sat, unknown, timeout, error
	Solver  string
	TimeS   float64
	Model   string
	Output  string
	Answers map[string]string // solver -> status (thorough: agreement)
}

type solverDef struct {
	name string
	args func(file string, timeoutS int, seed int) []string
}

var solvers = []solverDef{
	{"z3-new", func(f string, t, seed int) []string {
		return []string{"z3-new", fmt.Sprintf("-T:%d", t), fmt.Sprintf("smt.random_seed=%d", seed), fmt.Sprintf("sat.random_seed=%d", seed), f}
	}},
	{"cvc5", func(f string, t, seed int) []string {
		return []string{"cvc5", fmt.Sprintf("--tlimit=%d", t*1000), fmt.Sprintf("--seed=%d", seed), "--produce-models", "--lang=smt2", f}
	}},
	{"z3", func(f string, t, seed int) []string {
		return []string{"z3", fmt.Sprintf("-T:%d", t), fmt.Sprintf("smt.random_seed=%d", seed), f}
	}},
}

func contextBG() context.Context { return context.Background() }

func firstLine(s string) string {
	s = strings.TrimSpace(s)
	// solvers may print warnings before the answer
	for strings.HasPrefix(s, "WARNING") || strings.HasPrefix(s, "(warning") {
		i := strings.IndexByte(s, '\n')
		if i < 0 {
			break
		}
		s = strings.TrimSpace(s[i+1:])
	}
	if i := strings.IndexByte(s, '\n'); i >= 0 {
		return strings.TrimSpace(s[:i])
	}
	return s
}

func runOne(ctx context.Context, sd solverDef, file string, timeoutS, seed int) SolverResult {
	args := sd.args(file, timeoutS, seed)
	t0 := time.Now()
	cctx, cancel := context.WithTimeout(ctx, time.Duration(timeoutS+2)*time.Second)
	defer cancel()
	cmd := exec.CommandContext(cctx, args[0], args[1:]...)
	var out bytes.Buffer
	cmd.Stdout = &out
	cmd.Stderr = &out
	_ = cmd.Run()
	el := time.Since(t0).Seconds()
	o := out.String()
	fl := firstLine(o)
	r := SolverResult{Solver: sd.name, TimeS: el, Output: o}
	switch {
	case fl == "unsat":
		r.Status = "unsat"
	case fl == "sat":
		r.Status = "sat"
		if i := strings.IndexByte(o, '\n'); i >= 0 {
			r.Model = o[i+1:]
		}
	case fl == "unknown":
		r.Status = "unknown"
	case fl == "timeout" || cctx.Err() != nil || strings.Contains(fl, "interrupted") || strings.Contains(fl, "timeout"):
		r.Status = "timeout"
	default:
		r.Status = "error"
	}
	return r
}

type solveJob struct {
	file     string
	sd       solverDef
	trustSat bool   // a "sat" answer is a counterexample (false for weakened variants)
	variant  string
	delayMS  int
}

// solve races the portfolio on one SMT file (and optionally its ground-instantiated variant).
// First definite answer (unsat, or sat from a variant whose hypotheses were not weakened) wins.
// In agree mode the solvers get extra time after the first answer and a disagreement is an error.
func solve(file string, timeoutS int, seed int, agree bool) SolverResult {
	return solveVariants(file, "", timeoutS, seed, agree)
}

func solveVariants(file, groundFile string, timeoutS int, seed int, agree bool) SolverResult {
	var jobs []solveJob
	if groundFile != "" {
		jobs = append(jobs, solveJob{groundFile, solvers[0], false, "ground", 0})
		jobs = append(jobs, solveJob{file, solvers[0], true, "full", 0})
		jobs = append(jobs, solveJob{groundFile, solvers[1], false, "ground", 300})
		jobs = append(jobs, solveJob{file, solvers[2], true, "full", 600})
		jobs = append(jobs, solveJob{groundFile, solvers[2], false, "ground", 900})
	} else {
		for i, sd := range solvers {
			jobs = append(jobs, solveJob{file, sd, true, "full", 400 * i})
		}
	}
	ctx, cancel := context.WithCancel(context.Background())
	defer cancel()
	ch := make(chan SolverResult, len(jobs))
	var wg sync.WaitGroup
	for _, j := range jobs {
		wg.Add(1)
		go func(j solveJob) {
			defer wg.Done()
			name := j.sd.name
			if j.variant == "ground" {
				name += "/ground"
			}
			if j.delayMS > 0 && !agree {
				select {
				case <-time.After(time.Duration(j.delayMS) * time.Millisecond):
				case <-ctx.Done():
					ch <- SolverResult{Solver: name, Status: "cancelled"}
					return
				}
			}
			r := runOne(ctx, j.sd, j.file, timeoutS, seed)
			r.Solver = name
			if r.Status == "sat" && !j.trustSat {
				r.Status = "unknown" // weakened hypotheses: a model proves nothing
			}
			ch <- r
		}(j)
	}
	answers := map[string]string{}
	var best *SolverResult
	var last SolverResult
	total := 0.0
	var grace <-chan time.Time
	for range jobs {
		var r SolverResult
		select {
		case r = <-ch:
		case <-grace:
			cancel()
			r = <-ch
		}
		answers[r.Solver] = r.Status
		if r.Status != "cancelled" {
			last = r
		}
		if r.Status == "unsat" || r.Status == "sat" {
			if best == nil {
				rr := r
				best = &rr
				if !agree {
					cancel()
					break
				}
				grace = time.After(4 * time.Second)
			} else if best.Status != r.Status {
				best.Status = "error"
				best.Output += "\nSOLVER DISAGREEMENT: " + r.Solver + " says " + r.Status
			}
		}
		total += r.TimeS
	}
	go func() { wg.Wait() }()
	if best != nil {
		best.Answers = answers
		return *best
	}
	st := "unknown"
	allTimeout := true
	for _, a := range answers {
		if a != "timeout" && a != "cancelled" {
			allTimeout = false
		}
	}
	if allTimeout {
		st = "timeout"
	}
	return SolverResult{Status: st, Solver: "-", TimeS: total, Output: last.Output, Answers: answers}
}

func writeSMT(dir, name string, body string) (string, error) {
	fn := filepath.Join(dir, sanitizeFile(name)+".smt2")
	return fn, os.WriteFile(fn, []byte(body), 0o644)
}

func sanitizeFile(s string) string {
	var b strings.Builder
	for _, c := range s {
		switch {
		case c >= 'a' && c <= 'z', c >= 'A' && c <= 'Z', c >= '0' && c <= '9', c == '.', c == '-', c == '_':
			b.WriteRune(c)
		default:
			b.WriteByte('_')
		}
	}
	r := b.String()
	if len(r) > 180 {
		r = r[:180]
	}
	return r
}
