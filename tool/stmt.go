package main

// Statement execution.

import (
	"fmt"
	"regexp"
	"strconv"
	"strings"
	"go/ast"
	"go/token"
	"go/types"
)

func (e *Exec) execBlock(b *ast.BlockStmt) {
	if b == nil {
		return
	}
	for _, s := range b.List {
		e.exec(s)
	}
}

func (e *Exec) exec(s ast.Stmt) {
	if s == nil {
		return
	}
	if e.dead() {
		return
	}
	switch s := s.(type) {
	case *ast.BlockStmt:
		e.execBlock(s)
	case *ast.ExprStmt:
		e.ev(s.X)
	case *ast.AssignStmt:
		e.execAssign(s)
	case *ast.IncDecStmt:
		op := token.ADD
		if s.Tok == token.DEC {
			op = token.SUB
		}
		v := e.arith(op, e.ev(s.X), iv("1"), e.typeOf(s.X), false)
		e.assign(s.X, v)
	case *ast.DeclStmt:
		gd, ok := s.Decl.(*ast.GenDecl)
		if !ok || gd.Tok != token.VAR {
			return
		}
		for _, sp := range gd.Specs {
			vs := sp.(*ast.ValueSpec)
			if len(vs.Values) == 1 && len(vs.Names) > 1 {
				tv, _ := e.ev(vs.Values[0]).(TupleV)
				for i, n := range vs.Names {
					if obj := e.info().Defs[n]; obj != nil && i < len(tv) {
						e.st.vars[obj] = tv[i]
					}
				}
				continue
			}
			for i, n := range vs.Names {
				obj := e.info().Defs[n]
				if obj == nil {
					continue
				}
				if i < len(vs.Values) {
					e.st.vars[obj] = e.evConv(vs.Values[i], obj.Type())
				} else {
					e.st.vars[obj] = e.zeroVal(obj.Type())
				}
			}
		}
	case *ast.IfStmt:
		e.execIf(s)
	case *ast.ForStmt:
		e.execFor(s, "")
	case *ast.RangeStmt:
		e.execRange(s, "")
	case *ast.SwitchStmt:
		e.execSwitch(s, "")
	case *ast.TypeSwitchStmt:
		e.execTypeSwitch(s, "")
	case *ast.SelectStmt:
		e.execSelect(s, "")
	case *ast.LabeledStmt:
		switch in := s.Stmt.(type) {
		case *ast.ForStmt:
			e.execFor(in, s.Label.Name)
		case *ast.RangeStmt:
			e.execRange(in, s.Label.Name)
		case *ast.SwitchStmt:
			e.execSwitch(in, s.Label.Name)
		case *ast.TypeSwitchStmt:
			e.execTypeSwitch(in, s.Label.Name)
		case *ast.SelectStmt:
			e.execSelect(in, s.Label.Name)
		default:
			e.exec(s.Stmt)
		}
	case *ast.ReturnStmt:
		e.execReturn(s)
	case *ast.BranchStmt:
		e.execBranch(s)
	case *ast.DeferStmt:
		e.execDefer(s)
	case *ast.GoStmt:
		e.execGo(s)
	case *ast.SendStmt:
		e.ev(s.Chan)
		v := e.ev(s.Value)
		e.checkSendInv(s, v)
		e.recordSend(s, v)
	case *ast.EmptyStmt:
	default:
		e.warn("unsupported statement %T", s)
	}
}

func (e *Exec) recordSend(s *ast.SendStmt, v Val) {
	// ghost: count sends per channel expression text (used by a few contracts)
	name := "sent:" + exprText(s.Chan)
	cur, ok := e.st.vars[name].(SV)
	if !ok {
		cur = iv("0")
	}
	e.st.vars[name] = iv(mkAdd(cur.T, "1"))
	e.st.vars["sentval:"+exprText(s.Chan)] = v
}

func exprText(x ast.Expr) string { return exprTextMap(x, nil) }

// exprTextMap is exprText with the variable names mapped (contract side: names of renamed locals, see Exec.curName)
func exprTextMap(x ast.Expr, f func(string) string) string {
	switch y := x.(type) {
	case *ast.Ident:
		if f != nil {
			return f(y.Name)
		}
		return y.Name
	case *ast.SelectorExpr:
		return exprTextMap(y.X, f) + "." + y.Sel.Name
	case *ast.ParenExpr:
		return exprTextMap(y.X, f)
	case *ast.StarExpr:
		return "*" + exprTextMap(y.X, f)
	case *ast.CallExpr:
		return exprTextMap(y.Fun, f) + "()"
	case *ast.IndexExpr:
		return exprTextMap(y.X, f) + "[]"
	}
	return fmt.Sprintf("%T", x)
}

func (e *Exec) execAssign(s *ast.AssignStmt) {
	define := s.Tok == token.DEFINE
	if s.Tok != token.ASSIGN && s.Tok != token.DEFINE {
		// op-assign
		ops := map[token.Token]token.Token{token.ADD_ASSIGN: token.ADD, token.SUB_ASSIGN: token.SUB, token.MUL_ASSIGN: token.MUL,
			token.QUO_ASSIGN: token.QUO, token.REM_ASSIGN: token.REM, token.AND_ASSIGN: token.AND, token.OR_ASSIGN: token.OR,
			token.XOR_ASSIGN: token.XOR, token.SHL_ASSIGN: token.SHL, token.SHR_ASSIGN: token.SHR, token.AND_NOT_ASSIGN: token.AND_NOT}
		v := e.arith(ops[s.Tok], e.ev(s.Lhs[0]), e.ev(s.Rhs[0]), e.typeOf(s.Lhs[0]), false)
		e.assign(s.Lhs[0], v)
		return
	}
	if len(s.Rhs) == 1 && len(s.Lhs) > 1 {
		var tv TupleV
		switch r := ast.Unparen(s.Rhs[0]).(type) {
		case *ast.TypeAssertExpr:
			v := e.ev(r.X)
			t, _ := e.assertType(v, e.typeOf(r.Type), false).(TupleV)
			tv = t
		default:
			v := e.ev(s.Rhs[0])
			t, ok := v.(TupleV)
			if !ok {
				e.warn("tuple assignment from non-tuple %T", v)
				for _, l := range s.Lhs {
					e.assignD(l, e.havocVal("tup", e.typeOf(l)), define)
				}
				return
			}
			tv = t
		}
		for i, l := range s.Lhs {
			if i < len(tv) {
				e.assignD(l, tv[i], define)
			}
		}
		return
	}
	vals := make([]Val, len(s.Rhs))
	for i, r := range s.Rhs {
		lt := e.lhsType(s.Lhs[i])
		vals[i] = e.evConv(r, lt)
	}
	for i, l := range s.Lhs {
		e.assignD(l, vals[i], define)
	}
}

func (e *Exec) lhsType(l ast.Expr) types.Type {
	if id, ok := l.(*ast.Ident); ok {
		if id.Name == "_" {
			return nil
		}
		if o := e.info().ObjectOf(id); o != nil {
			return o.Type()
		}
	}
	return e.typeOf(l)
}

func (e *Exec) assignD(l ast.Expr, v Val, define bool) {
	if id, ok := l.(*ast.Ident); ok {
		if id.Name == "_" {
			return
		}
		if obj := e.info().ObjectOf(id); obj != nil {
			e.st.vars[obj] = v
			return
		}
	}
	e.assign(l, v)
}

func (e *Exec) assign(l ast.Expr, v Val) {
	switch x := l.(type) {
	case *ast.ParenExpr:
		e.assign(x.X, v)
	case *ast.Ident:
		if x.Name == "_" {
			return
		}
		obj := e.info().ObjectOf(x)
		if vo, ok := obj.(*types.Var); ok && vo.Parent() == vo.Pkg().Scope() {
			e.warn("write to package-level variable %s not modelled", x.Name)
			return
		}
		if kindOf(obj.Type()) == kStruct {
			// struct variable: copy into its object
			if cur, ok := e.st.vars[obj].(SV); ok {
				if sv, ok := v.(SV); ok {
					r := e.allocRef("sv")
					e.copyStruct(r, sv.T, obj.Type())
					_ = cur
					e.st.vars[obj] = iv(r)
					return
				}
			}
		}
		e.st.vars[obj] = v
		// a boxed local (its address was taken): keep the pointee in step
		if p, ok := e.st.vars["box:"+keyString(obj)]; ok {
			e.storeDeref(p, obj.Type(), v)
		}
	case *ast.SelectorExpr:
		sel, ok := e.info().Selections[x]
		if !ok || sel.Kind() != types.FieldVal {
			e.warn("assignment to unsupported selector")
			return
		}
		recv := e.ev(x.X)
		idx := sel.Index()
		rv, rt := recv, sel.Recv()
		if len(idx) > 1 {
			rv, rt = e.walkFields(recv, sel.Recv(), idx[:len(idx)-1])
		}
		st, _ := structOf(rt)
		ref, ok := rv.(SV)
		if st == nil || !ok {
			e.warn("field assignment through unsupported receiver")
			return
		}
		e.writeField(ref.T, rt, st.Field(idx[len(idx)-1]), v)
	case *ast.IndexExpr:
		bt := e.typeOf(x.X)
		base := e.ev(x.X)
		switch u := bt.Underlying().(type) {
		case *types.Map:
			m, ok := base.(SV)
			if !ok {
				return
			}
			e.mapWrite(m.T, e.mapKey(e.ev(x.Index), u.Key()), u.Elem(), v)
		default:
			s, ok := base.(SliceV)
			if !ok {
				e.warn("index assignment on unsupported base")
				return
			}
			e.writeElem(s, e.asInt(e.ev(x.Index)), elemType(bt), v)
		}
	case *ast.StarExpr:
		p := e.ev(x.X)
		e.storeDeref(p, e.typeOf(x), v)
	default:
		e.warn("unsupported assignment target %T", l)
	}
}

func (e *Exec) branch(cond string) (*State, *State) {
	if v, ok := e.decided(cond); ok {
		// the requires clauses already decide this condition: the other branch is dead code here
		if v {
			cond = tTrue
		} else {
			cond = tFalse
		}
	}
	saved := e.st
	a := saved.clone()
	a.pc = e.namePC(mkAnd(saved.pc, cond))
	b := saved.clone()
	b.pc = e.namePC(mkAnd(saved.pc, mkNot(cond)))
	return a, b
}

func (e *Exec) execIf(s *ast.IfStmt) {
	if s.Init != nil {
		e.exec(s.Init)
	}
	c := e.asBool(e.ev(s.Cond))
	a, b := e.branch(c)
	e.st = a
	e.execBlock(s.Body)
	a = e.st
	e.st = b
	if s.Else != nil {
		e.exec(s.Else)
	}
	b = e.st
	e.st = e.merge(a, b)
}

func (e *Exec) pushLoop(label string, isSwitch bool) *loopCtx {
	lc := &loopCtx{label: label, isSwitch: isSwitch}
	fr := e.frame()
	fr.loops = append(fr.loops, lc)
	return lc
}

func (e *Exec) popLoop() {
	fr := e.frame()
	fr.loops = fr.loops[:len(fr.loops)-1]
}

func (e *Exec) execBranch(s *ast.BranchStmt) {
	fr := e.frame()
	switch s.Tok {
	case token.BREAK, token.CONTINUE:
		for i := len(fr.loops) - 1; i >= 0; i-- {
			lc := fr.loops[i]
			if s.Label != nil && lc.label != s.Label.Name {
				continue
			}
			if s.Tok == token.CONTINUE && lc.isSwitch {
				continue
			}
			if s.Tok == token.BREAK {
				if lc.spec != nil && len(lc.spec.AtBreak) > 0 && e.dry == 0 && !lc.isSwitch {
					pos := e.curPos
					e.curPos = s.Pos()
					for k, cl := range lc.spec.AtBreak {
						benv := e.loopEnv()
						benv.prev = lc.iterStart
						benv.scopePos = s.Pos()
						t := e.specBool(cl, benv)
						lc.nbreak++
						e.oblige(fmt.Sprintf("atbreak#%s.%d@%d", lc.name, k, lc.nbreak), "assert", cl.Text, t)
					}
					e.curPos = pos
				}
				lc.breaks = append(lc.breaks, e.st)
			} else {
				lc.continues = append(lc.continues, e.st)
			}
			dead := e.st.clone()
			dead.pc = tFalse
			e.st = dead
			return
		}
		e.warn("break/continue without target")
	case token.GOTO, token.FALLTHROUGH:
		e.warn("%s not supported", s.Tok)
	}
}

// ---- loops -----------------------------------------------------------------

type loopParts struct {
	cond func() string // evaluates the condition in the current state
	pre  func()        // executed at the top of each iteration (range element binding)
	body *ast.BlockStmt
	post func()
	ord  int
	node ast.Stmt
	label string
	ghostIdx string // name under which the range index is visible to invariants
	headFact func() string // automatic invariant of range loops: 0 <= index <= len
	exitFact func() string // holds when the loop condition fails (not at break exits)
}

// modifiedBy runs the loop body in dry mode (repeatedly, to a fixpoint) and returns the set
// of state entries it can change.
func (e *Exec) modifiedBy(lp *loopParts) (map[interface{}]bool, map[string]bool, bool) {
	modV := map[interface{}]bool{}
	modH := map[string]bool{}
	allocCh := false
	e.dry++
	defer func() { e.dry-- }()
	logStart := map[string]int{}
	for k, ws := range e.writes {
		logStart[k] = len(ws)
	}
	e.freshOnly = map[string]bool{}
	e.invLocs = map[string][]string{}
	nAtEntry := e.n
	lastIterN := e.n
	lastIterLog := map[string]int{}
	defer func() {
		// classify modified keys: written only at objects allocated inside the loop body?
		fo := map[string]bool{}
		il := map[string][]string{}
		for k := range modH {
			if e.onlyLoopFreshWrites(k, logStart[k], nAtEntry) {
				fo[k] = true
				continue
			}
			// written only at locations that do not depend on anything the loop changes? Then only those
			// locations are havoc'd (terms of the last dry iteration, in which every modified variable had a
			// fresh name numbered above lastIterN)
			ws := e.writes[k]
			from := lastIterLog[k]
			if from > len(ws) {
				from = len(ws)
			}
			ok := len(ws[from:]) > 0
			seen := map[string]bool{}
			var locs []string
			for _, w := range ws[from:] {
				if w == "*" {
					ok = false
					break
				}
				if e.isFreshTerm(w) && !invariantTerm(w, nAtEntry) {
					continue // allocated inside the loop body
				}
				if !invariantTerm(w, lastIterN) {
					ok = false
					break
				}
				if !seen[w] {
					seen[w] = true
					locs = append(locs, w)
				}
			}
			// every earlier dry iteration must agree (same invariant locations or fresh)
			for _, w := range ws[logStart[k]:from] {
				if w == "*" || (!(e.isFreshTerm(w) && !invariantTerm(w, nAtEntry)) && !seen[w]) {
					ok = false
				}
			}
			if ok {
				il[k] = locs
			}
		}
		e.freshOnly = fo
		e.invLocs = il
		// the log entries of the dry run stay (they over-approximate the real run)
	}()
	saved := e.st
	savedRefAx := map[string]bool{}
	for k := range e.refAx {
		savedRefAx[k] = true
	}
	defer func() {
		for k := range e.refAx {
			if !savedRefAx[k] {
				delete(e.refAx, k) // its axiom was emitted into the discarded declarations of the dry run
			}
		}
	}()
	savedFacts, savedDecls, savedErrs := len(e.facts), len(e.decls), len(e.errs)
	savedDeclared := map[string]string{}
	for k, v := range e.declared {
		savedDeclared[k] = v
	}
	fr := e.frame()
	savedRets := len(fr.rets)
	savedDefers := len(fr.defers)
	// labelled break/continue out of the dry run reach enclosing loops' lists: remember their lengths
	type lcLen struct{ b, c int }
	outer := make([]lcLen, len(fr.loops))
	for i, lc := range fr.loops {
		outer[i] = lcLen{len(lc.breaks), len(lc.continues)}
	}
	restoreOuter := func(collect bool) []*State {
		var leaked []*State
		for i, lc := range fr.loops {
			if i >= len(outer) {
				break
			}
			if collect {
				leaked = append(leaked, lc.breaks[outer[i].b:]...)
				leaked = append(leaked, lc.continues[outer[i].c:]...)
			}
			lc.breaks = lc.breaks[:outer[i].b]
			lc.continues = lc.continues[:outer[i].c]
		}
		return leaked
	}
	for iter := 0; iter < 4; iter++ {
		lastIterN = e.n
		for k, ws := range e.writes {
			lastIterLog[k] = len(ws)
		}
		start := saved.clone()
		e.st = start
		// havoc what we know so far
		e.havocSet(modV, modH, allocCh)
		start = e.st.clone()
		lc := e.pushLoop(lp.label, false)
		c := lp.cond()
		e.st.pc = e.namePC(mkAnd(e.st.pc, c))
		if lp.pre != nil {
			lp.pre()
		}
		e.execBlock(lp.body)
		ends := append([]*State{e.st}, lc.continues...)
		e.st = e.mergeAll(ends)
		if e.st != nil && lp.post != nil && !e.dead() {
			lp.post()
		}
		e.popLoop()
		finals := append([]*State{e.st}, lc.breaks...)
		finals = append(finals, fr.rets[savedRets:]...)
		finals = append(finals, restoreOuter(true)...) // states that left through an enclosing loop's label
		fr.rets = fr.rets[:savedRets]
		fr.defers = fr.defers[:savedDefers]
		changed := false
		for _, f := range finals {
			if f == nil {
				continue
			}
			for k, v := range f.vars {
				sv, ok := start.vars[k]
				if ok && !valEq(sv, v) && !modV[k] {
					modV[k] = true
					changed = true
				}
				if !ok && !modV[k] {
					// a path event first recorded inside the loop body: at the loop head it may or may not
					// have happened in an earlier iteration
					if ks, isStr := k.(string); isStr && isEventKey(ks) {
						modV[k] = true
						changed = true
						if e.evSample == nil {
							e.evSample = map[string]Val{}
						}
						e.evSample[ks] = v
					}
				}
			}
			for k, v := range f.heap {
				sv, ok := start.heap[k]
				if !ok {
					sv = e.heapInit[k]
				}
				if sv != v && !modH[k] {
					modH[k] = true
					changed = true
				}
			}
			if f.alloc != start.alloc && !allocCh {
				allocCh = true
				changed = true
			}
		}
		if !changed {
			break
		}
	}
	e.st = saved
	e.facts = e.facts[:savedFacts]
	e.decls = e.decls[:savedDecls]
	e.errs = e.errs[:savedErrs]
	// sorts of the keys the loop modifies (a key first touched inside the body loses its declaration below)
	if e.drySorts == nil {
		e.drySorts = map[string]string{}
	}
	for k := range modH {
		if srt := e.heapSort[k]; srt != "" {
			e.drySorts[k] = srt
		}
	}
	// heapInit entries declared during the dry run stay valid only if re-declared
	for k := range e.declared {
		if _, ok := savedDeclared[k]; !ok {
			delete(e.declared, k)
		}
	}
	for k, init := range e.heapInit {
		if _, ok := e.declared[init]; !ok {
			delete(e.heapInit, k)
			delete(e.heapSort, k)
		}
	}
	return modV, modH, allocCh
}

func (e *Exec) havocSet(modV map[interface{}]bool, modH map[string]bool, allocCh bool) {
	if allocCh {
		n := e.fresh("alloc", SInt)
		e.addFact(sx(">=", n, e.st.alloc))
		e.st.alloc = n
	}
	// deterministic order
	var vk []interface{}
	for k := range modV {
		vk = append(vk, k)
	}
	sortKeys(vk)
	for _, k := range vk {
		old, ok := e.st.vars[k]
		ks, isStr := k.(string)
		if !ok {
			if isStr {
				old, ok = e.evSample[ks]
			}
			if !ok {
				continue
			}
		}
		e.st.vars[k] = e.havocLike(varHint(k), old, k)
		if isStr && strings.HasPrefix(ks, "ncalls:") {
			n := e.st.vars[k].(SV).T
			e.addFact(sx(">=", n, "0"))
		}
	}
	// called(f,k) <=> ncalls(f,k) > 0 for havoc'd events
	for _, k := range vk {
		ks, isStr := k.(string)
		if !isStr || !strings.HasPrefix(ks, "called:") {
			continue
		}
		c, ok1 := e.st.vars[k].(SV)
		n, ok2 := e.st.vars["ncalls:"+strings.TrimPrefix(ks, "called:")].(SV)
		if ok1 && ok2 {
			e.addFact(sx("=", c.T, sx(">", n.T, "0")))
		}
	}
	var hk []string
	for k := range modH {
		hk = append(hk, k)
	}
	sortStrings(hk)
	for _, k := range hk {
		sort := e.heapSort[k]
		if sort == "" {
			// first touched inside the loop body: declare the entry version now, then forget it like the others
			sort = e.drySorts[k]
			if sort == "" {
				continue
			}
		}
		old := e.heapGet(k, sort)
		if locs, ok := e.invLocs[k]; ok && e.dry == 0 {
			// only these (loop-invariant) locations are written by the loop
			// (values read from one fresh heap version, so that instantiation contexts see the same canonical
			// read (select <key> loc) as code that reads the location from a later version)
			cur := old
			src := e.fresh("Hl."+k, sort)
			for _, l := range locs {
				cur = mkStore(cur, l, sx("select", src, l))
			}
			e.st.heap[k] = cur
			continue
		}
		n := e.fresh("Hh."+k, sort)
		e.st.heap[k] = n
		if e.freshOnly[k] && e.dry == 0 {
			// the loop writes this key only at objects it allocates itself: everything that existed at loop
			// entry keeps its value
			e.addFact(fmt.Sprintf("(forall ((r!h Int)) (! (=> (<= (root r!h) %s) (= (select %s r!h) (select %s r!h))) :pattern ((select %s r!h))))", allocBefore(e), n, old, n))
		}
	}
}

func allocBefore(e *Exec) string {
	if e.loopAlloc != "" {
		return e.loopAlloc
	}
	return e.st.alloc
}

func (e *Exec) havocLike(hint string, old Val, key interface{}) Val {
	if obj, ok := key.(types.Object); ok {
		switch old.(type) {
		case FuncV, ChoiceV:
			return old // function-valued locals: keep (re-assignment inside loops is not supported)
		}
		return e.havocVal(hint, obj.Type())
	}
	switch x := old.(type) {
	case SV:
		return SV{e.fresh(hint, x.S), x.S}
	case SliceV:
		return SliceV{e.fresh(hint+".b", SInt), e.fresh(hint+".o", SInt), e.fresh(hint+".l", SInt), e.fresh(hint+".c", SInt)}
	case TupleV:
		out := make(TupleV, len(x))
		for i := range x {
			out[i] = e.havocLike(hint, x[i], nil)
		}
		return out
	}
	return old
}

func (e *Exec) runLoop(lp *loopParts) {
	savedPos := e.curPos
	if len(e.frames) == 1 || e.frame().closure {
		e.curPos = lp.body.Lbrace + 1 // inside the loop's scope: for-init and range variables are visible
	}
	defer func() { e.curPos = savedPos }()
	var spec *LoopSpec
	if e.contract != nil && len(e.frames) >= 1 && e.loopSpecApplies() {
		spec = e.curContract().Loops[lp.ord]
	}
	name := fmt.Sprintf("%d", lp.ord)
	// 1. invariant on entry
	if spec != nil {
		for i, inv := range spec.Invariants {
			t := e.specBool(inv, e.loopEnv())
			e.oblige(fmt.Sprintf("inv-entry#%s.%d", name, i), "inv-entry", inv.Text, t)
		}
	}
	// 2. havoc modified state
	modV, modH, allocCh := e.modifiedBy(lp)
	var decBefore string
	// implicit loop frame: a heap key that the loop head forgets completely keeps, at every iteration boundary, the
	// function's own frame property (pre-existing locations outside 'modifies' have their entry values). Proved on
	// entry and after every iteration, assumed at the head.
	var frameKeys []string
	if e.dry == 0 && e.contract != nil && !e.contract.NoFrame && len(e.frames) == 1 {
		for k := range modH {
			if _, partial := e.invLocs[k]; partial || e.freshOnly[k] {
				continue
			}
			if e.heapSort[k] == "" && e.drySorts[k] == "" {
				continue
			}
			frameKeys = append(frameKeys, k)
		}
		sortStrings(frameKeys)
		var kept []string
		for _, k := range frameKeys {
			init, has := e.heapInit[k]
			if !has || e.heapSort[k] == "" {
				kept = append(kept, k) // not touched before the loop: trivially framed
				continue
			}
			cur := e.heapGet(k, e.heapSort[k])
			if cur == init {
				kept = append(kept, k)
				continue
			}
			if g, ok := e.frameGoal(k, cur); ok {
				e.oblige(fmt.Sprintf("loop-frame-entry#%s[%s]", name, k), "frame", "frame holds when the loop is entered: "+k, g)
				kept = append(kept, k)
			}
		}
		frameKeys = kept
	}
	e.loopAlloc = e.st.alloc
	e.havocSet(modV, modH, allocCh)
	e.loopAlloc = ""
	e.wfHeaps()
	for _, k := range frameKeys {
		if g, ok := e.frameGoal(k, e.heapGet(k, e.heapSort[k])); ok {
			e.assume(g)
		}
	}
	// 3. assume invariant
	if lp.headFact != nil {
		e.assume(lp.headFact())
	}
	if spec != nil {
		for _, inv := range spec.Invariants {
			e.assume(e.specBool(inv, e.loopEnv()))
		}
	}
	head := e.st
	lc := e.pushLoop(lp.label, false)
	e.st = head.clone()
	c := lp.cond()
	afterCond := e.st
	bodySt := afterCond.clone()
	bodySt.pc = e.namePC(mkAnd(afterCond.pc, c))
	exitSt := afterCond.clone()
	exitSt.pc = e.namePC(mkAnd(afterCond.pc, mkNot(c)))
	if lp.exitFact != nil {
		e.st = exitSt
		e.assume(lp.exitFact())
		exitSt = e.st
	}
	e.st = bodySt
	iterStart := bodySt.clone()
	lc.spec, lc.name, lc.iterStart = spec, name, iterStart
	if spec != nil && spec.Decreases != nil {
		v, _ := e.evalSpec(spec.Decreases.Expr, e.loopEnv())
		decBefore = e.asInt(v)
	}
	if lp.pre != nil {
		lp.pre()
	}
	e.execBlock(lp.body)
	ends := append([]*State{e.st}, lc.continues...)
	e.st = e.mergeAll(ends)
	if e.st == nil {
		e.st = bodySt.clone()
		e.st.pc = tFalse
	}
	if !e.dead() {
		if spec != nil && len(spec.Iteration) > 0 {
			// per-iteration clauses: evaluated where the body ends, with the body's locals in scope
			pos := e.curPos
			if len(e.frames) == 1 || e.frame().closure {
				e.curPos = lp.body.Rbrace
			}
			for i, it := range spec.Iteration {
				ienv := e.loopEnv()
				ienv.prev = iterStart
				ienv.lenientLocals = true // a body local that is not bound on every path that ends the iteration is arbitrary
				t := e.specBool(it, ienv)
				e.oblige(fmt.Sprintf("iteration#%s.%d", name, i), "assert", it.Text, t)
			}
			e.curPos = pos
		}
		if lp.post != nil {
			lp.post()
		}
		for _, k := range frameKeys {
			if g, ok := e.frameGoal(k, e.heapGet(k, e.heapSort[k])); ok {
				e.oblige(fmt.Sprintf("loop-frame#%s[%s]", name, k), "frame", "frame still holds after the iteration: "+k, g)
			}
		}
		if spec != nil {
			for i, inv := range spec.Invariants {
				t := e.specBool(inv, e.loopEnv())
				e.oblige(fmt.Sprintf("inv-preserve#%s.%d", name, i), "inv-preserve", inv.Text, t)
			}
			if spec.Decreases != nil {
				v, _ := e.evalSpec(spec.Decreases.Expr, e.loopEnv())
				after := e.asInt(v)
				e.oblige(fmt.Sprintf("decreases#%s", name), "decreases", spec.Decreases.Text,
					mkAnd(sx("<", after, decBefore), sx(">=", decBefore, "0")))
			}
		}
	}
	e.popLoop()
	exits := append([]*State{exitSt}, lc.breaks...)
	e.st = e.mergeAll(exits)
	if e.st == nil {
		e.st = exitSt
	}
}

// loopSpecApplies: loop ordinals refer to loops lexically inside the function (or closure) whose
// contract is current; loops of inlined callees have no specs.
func (e *Exec) loopSpecApplies() bool {
	return e.curContract() != nil
}

func (e *Exec) curContract() *Contract {
	// the innermost frame that is either the top function or a closure of it with its own contract
	for i := len(e.frames) - 1; i >= 0; i-- {
		fr := e.frames[i]
		if fr.top {
			return e.contract
		}
		if fr.closure {
			continue // closures executed inline share the parent's loop numbering
		}
		return nil // inlined named callee
	}
	return e.contract
}

func (e *Exec) execFor(s *ast.ForStmt, label string) {
	if s.Init != nil {
		e.exec(s.Init)
	}
	lp := &loopParts{body: s.Body, ord: e.loopOrd[s], node: s, label: label}
	lp.cond = func() string {
		if s.Cond == nil {
			return tTrue
		}
		return e.asBool(e.ev(s.Cond))
	}
	if s.Post != nil {
		lp.post = func() { e.exec(s.Post) }
	}
	e.runLoop(lp)
}

func (e *Exec) execRange(s *ast.RangeStmt, label string) {
	xt := e.typeOf(s.X)
	ord := e.loopOrd[s]
	idxKey := fmt.Sprintf("$i%d", ord)
	lp := &loopParts{body: s.Body, ord: ord, node: s, label: label}
	bindKV := func(k, v Val) {
		if s.Key != nil {
			e.assignD(s.Key, k, s.Tok == token.DEFINE)
		}
		if s.Value != nil && v != nil {
			e.assignD(s.Value, v, s.Tok == token.DEFINE)
		}
	}
	switch u := xt.Underlying().(type) {
	case *types.Slice, *types.Array, *types.Pointer:
		sl, ok := e.ev(s.X).(SliceV)
		if !ok {
			e.warn("range over unsupported value")
			sl = e.havocVal("rng", xt).(SliceV)
		}
		e.st.vars[idxKey] = iv("0")
		// make the key variable visible before the loop so that it is part of the havoc set
		if s.Key != nil {
			if id, ok := s.Key.(*ast.Ident); ok && id.Name != "_" {
				if obj := e.info().ObjectOf(id); obj != nil {
					e.st.vars[obj] = iv("0")
				}
			}
		}
		lp.cond = func() string { return sx("<", e.st.vars[idxKey].(SV).T, sl.Len) }
		lp.headFact = func() string {
			i := e.st.vars[idxKey].(SV).T
			return mkAnd(sx("<=", "0", i), sx("<=", i, sl.Len))
		}
		lp.pre = func() {
			i := e.st.vars[idxKey].(SV)
			e.assume(sx(">=", i.T, "0"))
			var v Val
			if s.Value != nil {
				v = e.readElem(sl, i.T, elemType(xt))
				e.refFacts(v, elemType(xt))
			}
			bindKV(i, v)
		}
		lp.post = func() {
			i := e.st.vars[idxKey].(SV)
			e.st.vars[idxKey] = iv(mkAdd(i.T, "1"))
		}
		e.runLoopRangeIdx(lp, idxKey)
	case *types.Basic:
		if u.Info()&types.IsInteger != 0 {
			n := e.asInt(e.ev(s.X))
			e.st.vars[idxKey] = iv("0")
			lp.cond = func() string { return sx("<", e.st.vars[idxKey].(SV).T, n) }
			lp.headFact = func() string {
				i := e.st.vars[idxKey].(SV).T
				return mkAnd(sx("<=", "0", i), mkOr(sx("<=", i, n), sx("<", n, "0")))
			}
			lp.pre = func() { bindKV(e.st.vars[idxKey], nil) }
			lp.post = func() { e.st.vars[idxKey] = iv(mkAdd(e.st.vars[idxKey].(SV).T, "1")) }
			e.runLoopRangeIdx(lp, idxKey)
			return
		}
		// string: opaque iteration
		e.rangeOpaque(s, lp)
	case *types.Map:
		m, ok := e.ev(s.X).(SV)
		if !ok {
			e.rangeOpaque(s, lp)
			return
		}
		// unknown iteration order: each iteration sees an arbitrary not-yet-visited key of the map
		visKey := fmt.Sprintf("$visited%d", ord)
		e.st.vars[visKey] = SV{"((as const (Array Int Bool)) false)", SArrB}
		more := func() string { return "" }
		_ = more
		lp.cond = func() string {
			// another unvisited key exists (nondeterministic, constrained below)
			return e.fresh("more", SBool)
		}
		lp.pre = func() {
			k := e.fresh("key", SInt)
			vis := e.st.vars[visKey].(SV)
			e.assume(mkAnd(e.mapHas(m.T, k), mkNot(mkSelect(vis.T, k))))
			e.st.vars[visKey] = SV{mkStore(vis.T, k, tTrue), SArrB}
			kv := Val(iv(k))
			var v Val
			if s.Value != nil {
				v = e.mapRead(m.T, k, u.Elem())
				e.refFacts(v, u.Elem())
			}
			bindKV(kv, v)
		}
		// when the iteration runs to completion every key that was present at the start and is still present
		// has been visited (entries inserted during the iteration may be skipped; break exits know nothing)
		domEntry := mkSelect(e.mapDom(m.T), "k")
		lp.exitFact = func() string {
			vis, ok := e.st.vars[visKey].(SV)
			if !ok {
				return tTrue
			}
			return fmt.Sprintf("(forall ((k Int)) (! (=> (and %s %s) %s) :pattern (%s)))", domEntry, mkSelect(e.mapDom(m.T), "k"), mkSelect(vis.T, "k"), mkSelect(vis.T, "k"))
		}
		e.runLoop(lp)
	case *types.Chan:
		lp.cond = func() string { return e.fresh("chopen", SBool) }
		lp.pre = func() { bindKV(e.havocVal("recv", u.Elem()), nil) }
		e.runLoop(lp)
	default:
		e.rangeOpaque(s, lp)
	}
}

func (e *Exec) runLoopRangeIdx(lp *loopParts, idxKey string) {
	e.runLoop(lp)
}

func (e *Exec) rangeOpaque(s *ast.RangeStmt, lp *loopParts) {
	lp.cond = func() string { return e.fresh("more", SBool) }
	lp.pre = func() {
		if s.Key != nil {
			e.assignD(s.Key, e.havocVal("rk", e.lhsType(s.Key)), s.Tok == token.DEFINE)
		}
		if s.Value != nil {
			e.assignD(s.Value, e.havocVal("rv", e.lhsType(s.Value)), s.Tok == token.DEFINE)
		}
	}
	e.runLoop(lp)
}

// ---- switch / select ---------------------------------------------------------

func (e *Exec) execSwitch(s *ast.SwitchStmt, label string) {
	if s.Init != nil {
		e.exec(s.Init)
	}
	var tag Val
	var tagT types.Type
	if s.Tag != nil {
		tag = e.ev(s.Tag)
		tagT = e.typeOf(s.Tag)
	}
	lc := e.pushLoop(label, true)
	var outs []*State
	var deflt *ast.CaseClause
	rest := e.st
	for _, cc := range s.Body.List {
		c := cc.(*ast.CaseClause)
		if c.List == nil {
			deflt = c
			continue
		}
		e.st = rest
		var conds []string
		for _, x := range c.List {
			if tag != nil {
				conds = append(conds, e.asBool(e.compare(token.EQL, tag, e.ev(x), tagT, e.typeOf(x))))
			} else {
				conds = append(conds, e.asBool(e.ev(x)))
			}
		}
		a, b := e.branch(mkOr(conds...))
		e.st = a
		for _, st := range c.Body {
			e.exec(st)
		}
		outs = append(outs, e.st)
		rest = b
	}
	e.st = rest
	if deflt != nil {
		for _, st := range deflt.Body {
			e.exec(st)
		}
	}
	outs = append(outs, e.st)
	e.popLoop()
	outs = append(outs, lc.breaks...)
	e.st = e.mergeAll(outs)
}

func (e *Exec) execTypeSwitch(s *ast.TypeSwitchStmt, label string) {
	if s.Init != nil {
		e.exec(s.Init)
	}
	var x ast.Expr
	var bind *ast.Ident
	switch a := s.Assign.(type) {
	case *ast.ExprStmt:
		x = a.X.(*ast.TypeAssertExpr).X
	case *ast.AssignStmt:
		x = a.Rhs[0].(*ast.TypeAssertExpr).X
		bind = a.Lhs[0].(*ast.Ident)
	}
	v := e.ev(x)
	sv, _ := v.(SV)
	lc := e.pushLoop(label, true)
	var outs []*State
	var deflt *ast.CaseClause
	rest := e.st
	for _, cc := range s.Body.List {
		c := cc.(*ast.CaseClause)
		if c.List == nil {
			deflt = c
			continue
		}
		e.st = rest
		var conds []string
		for _, tx := range c.List {
			t := e.typeOf(tx)
			if t == nil || kindOf(t) == kOther && isNilType(t) {
				conds = append(conds, mkEq(sv.T, "0"))
				continue
			}
			if b, ok := t.(*types.Basic); ok && b.Kind() == types.UntypedNil {
				conds = append(conds, mkEq(sv.T, "0"))
				continue
			}
			if _, isIface := t.Underlying().(*types.Interface); isIface {
				conds = append(conds, e.ifaceImpl(sv.T, t))
			} else {
				conds = append(conds, mkAnd(mkNot(mkEq(sv.T, "0")), mkEq(sx("dyntype", sv.T), mkInt(int64(e.g.typeID(t))))))
			}
		}
		a, b := e.branch(mkOr(conds...))
		e.st = a
		if bind != nil {
			if obj := e.info().Implicits[c]; obj != nil {
				var bvv Val = v
				if len(c.List) == 1 {
					if t := e.typeOf(c.List[0]); t != nil {
						if r, ok := e.assertType(v, t, true).(SV); ok {
							bvv = r
						}
					}
				}
				e.st.vars[obj] = bvv
			}
		}
		for _, st := range c.Body {
			e.exec(st)
		}
		outs = append(outs, e.st)
		rest = b
	}
	e.st = rest
	if deflt != nil {
		if bind != nil {
			if obj := e.info().Implicits[deflt]; obj != nil {
				e.st.vars[obj] = v
			}
		}
		for _, st := range deflt.Body {
			e.exec(st)
		}
	}
	outs = append(outs, e.st)
	e.popLoop()
	outs = append(outs, lc.breaks...)
	e.st = e.mergeAll(outs)
}

func isNilType(t types.Type) bool {
	b, ok := t.(*types.Basic)
	return ok && b.Kind() == types.UntypedNil
}

func (e *Exec) execSelect(s *ast.SelectStmt, label string) {
	lc := e.pushLoop(label, true)
	var outs []*State
	rest := e.st
	n := len(s.Body.List)
	for i, cc := range s.Body.List {
		c := cc.(*ast.CommClause)
		e.st = rest
		var a, b *State
		if i == n-1 {
			a, b = e.st, nil
		} else {
			a, b = e.branch(e.fresh("sel", SBool))
		}
		e.st = a
		if c.Comm != nil {
			e.exec(c.Comm)
		}
		for _, st := range c.Body {
			e.exec(st)
		}
		outs = append(outs, e.st)
		if b != nil {
			rest = b
		}
	}
	e.popLoop()
	outs = append(outs, lc.breaks...)
	e.st = e.mergeAll(outs)
	if e.st == nil {
		e.st = rest
	}
}

// ---- defer / go / return -----------------------------------------------------

func (e *Exec) execDefer(s *ast.DeferStmt) {
	fr := e.frame()
	d := deferred{pc: e.st.pc, call: s.Call, pkg: e.pkg}
	// evaluate function value and arguments now
	d.fv = e.calleeValue(s.Call)
	for _, a := range s.Call.Args {
		d.args = append(d.args, e.ev(a))
	}
	fr.defers = append(fr.defers, d)
}

func (e *Exec) runDefers(fr *Frame) {
	for i := len(fr.defers) - 1; i >= 0; i-- {
		d := fr.defers[i]
		if e.dead() {
			return
		}
		// the deferred call runs only on paths on which the defer statement was executed
		a, b := e.branch(d.pc)
		e.st = a
		savedPkg := e.pkg
		e.pkg = d.pkg
		savedDefers := fr.defers
		fr.defers = nil
		e.callValue(d.call, d.fv, d.args, true)
		fr.defers = savedDefers
		e.pkg = savedPkg
		e.st = e.merge(e.st, b)
	}
}

func (e *Exec) execGo(s *ast.GoStmt) {
	// spawn event: evaluate the arguments; the body is not interleaved (A-SEQ)
	var args []Val
	for _, a := range s.Call.Args {
		args = append(args, e.ev(a))
	}
	if _, isLit := s.Call.Fun.(*ast.FuncLit); isLit {
		e.recordCallEvent(s.Call, nil, nil)
	} else {
		// go f(x) / go r.m(x): the spawn is a call event with the evaluated receiver and arguments; caller-side
		// clauses (callsite ... requires, assert before) are checked at the spawn
		fv := e.calleeValue(s.Call)
		e.checkCallsite(s.Call, fv, args)
		evArgs := args
		if f, ok := fv.(FuncV); ok && f.Recv != nil {
			evArgs = append([]Val{f.Recv}, args...)
		}
		e.recordCallEvent(s.Call, evArgs, nil)
		if site, ok := e.callOrd[s.Call]; ok {
			e.st.vars[fmt.Sprintf("spawned:%s#%d", site.Name, site.K)] = bv(tTrue)
		}
	}
	if lit, ok := s.Call.Fun.(*ast.FuncLit); ok {
		// spawn-requires: the preconditions of a goroutine body with its own contract hold when it is started
		if k, ok := e.litOrd[lit]; ok && e.contract != nil {
			if cct := e.topContractClosures()[k]; cct != nil {
				env := e.loopEnv()
				env.scopePos = lit.Body.Lbrace + 1
				for i, r := range cct.Requires {
					e.oblige(fmt.Sprintf("spawn-pre closure%d.%d", k, i), "call-pre", r.Text, e.specBool(r, env))
				}
			}
		}
		// variables assigned by the goroutine body are havoc'd (they may change at any time)
		assigned := map[types.Object]bool{}
		ast.Inspect(lit.Body, func(n ast.Node) bool {
			if as, ok := n.(*ast.AssignStmt); ok && as.Tok != token.DEFINE {
				for _, l := range as.Lhs {
					if id, ok := l.(*ast.Ident); ok {
						if obj := e.info().ObjectOf(id); obj != nil {
							assigned[obj] = true
						}
					}
				}
			}
			return true
		})
		for obj := range assigned {
			if _, ok := e.st.vars[obj]; ok {
				e.st.vars[obj] = e.havocVal(obj.Name(), obj.Type())
				e.warn("variable %s is written by a spawned goroutine: havoc'd", obj.Name())
			}
		}
	}
}

func (e *Exec) execReturn(s *ast.ReturnStmt) {
	fr := e.frame()
	if len(s.Results) > 0 {
		var vals []Val
		if len(s.Results) == 1 && len(fr.resultKeys) > 1 {
			tv, _ := e.ev(s.Results[0]).(TupleV)
			vals = tv
		} else {
			for i, r := range s.Results {
				var t types.Type
				if i < len(fr.resultTypes) {
					t = fr.resultTypes[i]
				}
				vals = append(vals, e.evConv(r, t))
			}
		}
		for i, k := range fr.resultKeys {
			if i < len(vals) {
				e.st.vars[k] = vals[i]
			}
		}
	}
	e.finishReturn(fr, s)
}

// finishReturn runs defers and records the return state.
func (e *Exec) finishReturn(fr *Frame, s *ast.ReturnStmt) {
	if fr.top && e.dry == 0 && e.contract != nil && len(e.contract.Instances) > 0 && len(fr.defers) > 0 {
		// lemma instances are hypotheses of the return state: deferred calls (an Unlock that has to re-establish a
		// monitor invariant) see them too
		env := e.topEnv(e.st)
		env.paramsAtEntry = true
		env.scopePos = fr.body.Rbrace
		env.lenientLocals = true
		e.resultNames(env, fr, e.st)
		for _, inst := range e.contract.Instances {
			e.addFact(e.lemmaInstance(inst, env))
		}
	}
	e.runDefers(fr)
	if fr.top && e.dry == 0 {
		ord := e.fallOff
		if s != nil {
			ord = e.retOrd[s]
		}
		e.checkPosts(ord)
	}
	fr.rets = append(fr.rets, e.st)
	dead := e.st.clone()
	dead.pc = tFalse
	e.st = dead
}

var bangNum = regexp.MustCompile(`!(\d+)`)

// invariantTerm: the term mentions no symbol created after counter value n.
func invariantTerm(t string, n int) bool {
	for _, m := range bangNum.FindAllStringSubmatch(t, -1) {
		k, _ := strconv.Atoi(m[1])
		if k > n {
			return false
		}
	}
	return true
}
