package main

// Evaluation of program expressions (typed by go/types) into symbolic values.

import (
	"fmt"
	"go/ast"
	"go/constant"
	"go/token"
	"go/types"
	"strings"
)

func (e *Exec) typeOf(x ast.Expr) types.Type {
	if tv, ok := e.info().Types[x]; ok {
		return tv.Type
	}
	if id, ok := x.(*ast.Ident); ok {
		if o := e.info().ObjectOf(id); o != nil {
			return o.Type()
		}
	}
	return nil
}

// strLitBytes states the bytes of a short string literal (prefix tests, one-character separators)
func (e *Exec) strLitBytes(id int, s string) {
	if len(s) == 0 || len(s) > 4 {
		return
	}
	e.declareFun("strat", []string{SInt, SInt}, SInt)
	for i := 0; i < len(s); i++ {
		e.addFact(mkEq(sx("strat", mkInt(int64(id)), mkInt(int64(i))), mkInt(int64(s[i]))))
	}
}

func (e *Exec) constVal(v constant.Value, t types.Type) Val {
	switch v.Kind() {
	case constant.Bool:
		if constant.BoolVal(v) {
			return bv(tTrue)
		}
		return bv(tFalse)
	case constant.Int:
		return iv(mkBigInt(v.ExactString()))
	case constant.String:
		s := constant.StringVal(v)
		id := e.g.strID(s)
		e.addFact(mkEq(sx("strlen", mkInt(int64(id))), mkInt(int64(len(s)))))
		e.strLitBytes(id, s)
		return iv(mkInt(int64(id)))
	case constant.Float:
		if kindOf(t) == kInt {
			if i, ok := constant.Int64Val(constant.ToInt(v)); ok {
				return iv(mkInt(i))
			}
		}
		// floats are opaque: one id per literal text
		return iv(mkInt(int64(e.g.strID("float:" + v.ExactString()))))
	}
	return iv(e.fresh("const", SInt))
}

// ev evaluates a program expression.
func (e *Exec) ev(x ast.Expr) Val {
	if tv, ok := e.info().Types[x]; ok && tv.Value != nil {
		return e.constVal(tv.Value, tv.Type)
	}
	switch x := x.(type) {
	case *ast.ParenExpr:
		return e.ev(x.X)
	case *ast.Ident:
		return e.evIdent(x)
	case *ast.BasicLit:
		return iv(e.fresh("lit", SInt))
	case *ast.SelectorExpr:
		return e.evSelector(x)
	case *ast.StarExpr:
		p := e.ev(x.X)
		return e.deref(p, e.typeOf(x))
	case *ast.UnaryExpr:
		return e.evUnary(x)
	case *ast.BinaryExpr:
		return e.evBinary(x)
	case *ast.CallExpr:
		return e.evCall(x)
	case *ast.IndexExpr:
		return e.evIndex(x)
	case *ast.SliceExpr:
		return e.evSliceExpr(x)
	case *ast.CompositeLit:
		return e.evCompositeLit(x)
	case *ast.FuncLit:
		// a literal with its own 'closure k' contract is treated as escaping: from now on any call whose body
		// we do not see may run it (its captured variables are havoc'd subject to its guarantee)
		if e.contract != nil {
			if k, ok := e.litOrd[x]; ok {
				if cct := e.topContractClosures()[k]; cct != nil {
					e.escaped = append(e.escaped, escapedLit{lit: x, ct: cct, pkg: e.pkg, pos: x.Pos()})
				}
			}
		}
		fv := FuncV{Lit: x, Pkg: e.pkg, Owner: e.frame()}
		if k, ok := e.litOrd[x]; ok {
			// closure(k) in specs: the value this literal evaluated to (a non-nil reference distinct from every
			// function value the program did not create here)
			fv.ID = e.fresh(fmt.Sprintf("fnlit%d", k), SInt)
			e.addFact(sx(">", fv.ID, "0"))
			e.st.vars[fmt.Sprintf("closureval:%d", k)] = iv(fv.ID)
		}
		return fv
	case *ast.TypeAssertExpr:
		v := e.ev(x.X)
		if x.Type == nil {
			return v
		}
		// single-value form: panics on failure (A-NOPANIC): assume success
		return e.assertType(v, e.typeOf(x.Type), true)
	case *ast.KeyValueExpr:
		return e.ev(x.Value)
	case *ast.IndexListExpr:
		return e.ev(x.X)
	}
	e.warn("unsupported expression %T", x)
	return e.havocVal("unk", e.typeOf(x))
}

func (e *Exec) deref(p Val, t types.Type) Val {
	pt, ok := p.(SV)
	if !ok {
		return p
	}
	switch kindOf(t) {
	case kStruct:
		return pt // struct objects are their references
	case kBool:
		return bv(mkSelect(e.heapGet("ptr:Bool", SArrB), pt.T))
	case kSlice:
		return SliceV{
			Base: mkSelect(e.heapGet("ptr:sl#base", SArrI), pt.T), Off: mkSelect(e.heapGet("ptr:sl#off", SArrI), pt.T),
			Len: mkSelect(e.heapGet("ptr:sl#len", SArrI), pt.T), Cap: mkSelect(e.heapGet("ptr:sl#cap", SArrI), pt.T)}
	default:
		return iv(mkSelect(e.heapGet("ptr:Int", SArrI), pt.T))
	}
}

func (e *Exec) storeDeref(p Val, t types.Type, v Val) {
	pt, ok := p.(SV)
	if !ok {
		return
	}
	switch kindOf(t) {
	case kStruct:
		if sv, ok := v.(SV); ok {
			e.copyStruct(pt.T, sv.T, t)
		}
	case kBool:
		e.heapSet("ptr:Bool", SArrB, mkStore(e.heapGet("ptr:Bool", SArrB), pt.T, e.asBool(v)))
	case kSlice:
		s, _ := v.(SliceV)
		e.heapSet("ptr:sl#base", SArrI, mkStore(e.heapGet("ptr:sl#base", SArrI), pt.T, s.Base))
		e.heapSet("ptr:sl#off", SArrI, mkStore(e.heapGet("ptr:sl#off", SArrI), pt.T, s.Off))
		e.heapSet("ptr:sl#len", SArrI, mkStore(e.heapGet("ptr:sl#len", SArrI), pt.T, s.Len))
		e.heapSet("ptr:sl#cap", SArrI, mkStore(e.heapGet("ptr:sl#cap", SArrI), pt.T, s.Cap))
	default:
		e.heapSet("ptr:Int", SArrI, mkStore(e.heapGet("ptr:Int", SArrI), pt.T, e.asInt(v)))
	}
}

func (e *Exec) evIdent(id *ast.Ident) Val {
	obj := e.info().ObjectOf(id)
	switch o := obj.(type) {
	case *types.Nil:
		if kindOf(e.typeOf(id)) == kSlice {
			return SliceV{"0", "0", "0", "0"}
		}
		return iv("0")
	case *types.Const:
		return e.constVal(o.Val(), o.Type())
	case *types.Var:
		if v, ok := e.st.vars[o]; ok {
			return v
		}
		if o.Parent() == o.Pkg().Scope() || o.Pkg() != e.pkg.Types {
			return e.globalVar(o)
		}
		// a local we have not seen (e.g. declared in code we skipped)
		e.warn("read of unbound local %s", o.Name())
		v := e.havocVal(o.Name(), o.Type())
		e.st.vars[o] = v
		return v
	case *types.Func:
		return FuncV{Fn: o, Pkg: e.pkg}
	case *types.Builtin:
		return FuncV{}
	}
	if id.Name == "_" {
		return iv("0")
	}
	e.warn("unresolved identifier %s", id.Name)
	return e.havocVal(id.Name, e.typeOf(id))
}

// globalVar: package-level variables are immutable symbolic constants per run
// (sentinel errors, configuration); writes to them are not modelled.
func (e *Exec) globalVar(o *types.Var) Val {
	name := "g." + smtName(o.Pkg().Path()+"."+o.Name())
	switch kindOf(o.Type()) {
	case kBool:
		e.declare(name, SBool)
		return bv(name)
	case kSlice:
		for _, s := range []string{".base", ".off", ".len"} {
			e.declare(name+s, SInt)
		}
		sl := SliceV{name + ".base", name + ".off", name + ".len", name + ".len"}
		e.addFact(mkAnd(sx(">=", sl.Len, "0"), sx(">=", sl.Off, "0")))
		return sl
	default:
		e.declare(name, SInt)
		if kindOf(o.Type()) == kRef {
			if _, isIface := o.Type().Underlying().(*types.Interface); isIface && (strings.HasPrefix(o.Name(), "Err") || strings.HasPrefix(o.Name(), "err")) {
				e.addFact(mkNot(mkEq(name, "0"))) // sentinel errors are non-nil
			}
		}
		return iv(name)
	}
}

func (e *Exec) evSelector(x *ast.SelectorExpr) Val {
	sel, ok := e.info().Selections[x]
	if !ok {
		// qualified identifier
		return e.evIdent(x.Sel)
	}
	switch sel.Kind() {
	case types.FieldVal:
		recv := e.ev(x.X)
		v, _ := e.walkFields(recv, sel.Recv(), sel.Index())
		return v
	case types.MethodVal:
		recv := e.ev(x.X)
		idx := sel.Index()
		rv, rt := recv, sel.Recv()
		if len(idx) > 1 {
			rv, rt = e.walkFields(recv, sel.Recv(), idx[:len(idx)-1])
		}
		return FuncV{Fn: sel.Obj().(*types.Func), Recv: rv, RecvT: rt, Pkg: e.pkg}
	case types.MethodExpr:
		return FuncV{Fn: sel.Obj().(*types.Func), Pkg: e.pkg}
	}
	e.warn("unsupported selection kind")
	return e.havocVal("sel", e.typeOf(x))
}

// walkFields follows a field index path starting at value v of type t.
func (e *Exec) walkFields(v Val, t types.Type, path []int) (Val, types.Type) {
	for _, i := range path {
		st, _ := structOf(t)
		if st == nil {
			e.warn("field path through non-struct %s", t)
			return e.havocVal("fld", t), t
		}
		f := st.Field(i)
		ref, ok := v.(SV)
		if !ok {
			e.warn("field of non-reference value")
			return e.havocVal("fld", f.Type()), f.Type()
		}
		v = e.readField(ref.T, t, f)
		e.refFacts(v, f.Type())
		t = f.Type()
	}
	return v, t
}

func (e *Exec) evUnary(x *ast.UnaryExpr) Val {
	switch x.Op {
	case token.NOT:
		return bv(mkNot(e.asBool(e.ev(x.X))))
	case token.SUB:
		v := e.ev(x.X)
		return e.arith(token.SUB, iv("0"), v, e.typeOf(x), false)
	case token.ADD:
		return e.ev(x.X)
	case token.AND:
		return e.addrOf(x.X)
	case token.ARROW:
		ch := e.ev(x.X)
		r := e.chanRecv(ch, e.typeOf(x))
		// receive event: recvd(ch) counts, recvval(ch) is the last value received
		name := exprText(x.X)
		cnt, _ := e.st.vars["recvd:"+name].(SV)
		if cnt.T == "" {
			cnt = iv("0")
		}
		e.st.vars["recvd:"+name] = iv(mkAdd(cnt.T, "1"))
		val, okT := r, ""
		if tv, isT := r.(TupleV); isT && len(tv) == 2 {
			val = tv[0]
			okT = e.asBool(tv[1])
		}
		e.st.vars["recvval:"+name] = val
		e.recvWithInv(x, val, okT)
		return r
	case token.XOR:
		v := e.ev(x.X)
		e.declareFun("bitnot", []string{SInt}, SInt)
		return iv(sx("bitnot", e.asInt(v)))
	}
	e.warn("unsupported unary %s", x.Op)
	return e.havocVal("un", e.typeOf(x))
}

func (e *Exec) chanRecv(ch Val, t types.Type) Val {
	if tu, ok := t.(*types.Tuple); ok {
		return TupleV{e.havocVal("recv", tu.At(0).Type()), bv(e.fresh("recvok", SBool))}
	}
	return e.havocVal("recv", t)
}

func (e *Exec) addrOf(x ast.Expr) Val {
	switch y := x.(type) {
	case *ast.ParenExpr:
		return e.addrOf(y.X)
	case *ast.CompositeLit:
		return e.ev(y) // struct literal value is already a fresh reference
	}
	t := e.typeOf(x)
	if kindOf(t) == kStruct {
		return e.ev(x) // struct locations are references
	}
	if id, ok := x.(*ast.Ident); ok {
		// address of a scalar local: box it (escaping local). The variable itself stays in vars;
		// we return an opaque pointer and remember the aliasing so that later calls havoc it.
		obj := e.info().ObjectOf(id)
		key := "box:" + keyString(obj)
		if p, ok := e.st.vars[key]; ok {
			return p
		}
		p := iv(e.allocRef("box." + id.Name))
		e.st.vars[key] = p
		// the pointee holds the variable's current value (reads through the pointer see it as long as the variable
		// is not assigned afterwards; the variable itself is forgotten at calls)
		if cur, ok := e.st.vars[obj]; ok && t != nil {
			e.storeDeref(p, t, cur)
		}
		e.warn("address of scalar local %s taken: variable is havoc'd at calls", id.Name)
		if fr := e.frame(); fr != nil {
			e.st.vars["boxed:"+keyString(obj)] = bv(tTrue)
		}
		return p
	}
	if sel, ok := x.(*ast.SelectorExpr); ok {
		if s, ok := e.info().Selections[sel]; ok && s.Kind() == types.FieldVal {
			recv := e.ev(sel.X)
			idx := s.Index()
			rv, rt := recv, s.Recv()
			if len(idx) > 1 {
				rv, rt = e.walkFields(recv, s.Recv(), idx[:len(idx)-1])
			}
			st, sname := structOf(rt)
			if st != nil {
				f := st.Field(idx[len(idx)-1])
				if r, ok := rv.(SV); ok {
					return iv(e.subRef(r.T, "addr:"+fieldKey(sname, f)))
				}
			}
		}
	}
	e.warn("address-of unsupported operand %T", x)
	return e.havocVal("addr", types.NewPointer(t))
}

func (e *Exec) evBinary(x *ast.BinaryExpr) Val {
	switch x.Op {
	case token.LAND, token.LOR:
		l := e.asBool(e.ev(x.X))
		// right operand is evaluated only when needed; its side effects (calls) are guarded
		if !hasCall(x.Y) {
			r := e.asBool(e.ev(x.Y))
			if x.Op == token.LAND {
				return bv(mkAnd(l, r))
			}
			return bv(mkOr(l, r))
		}
		guard := l
		if x.Op == token.LOR {
			guard = mkNot(l)
		}
		saved := e.st
		br := saved.clone()
		br.pc = e.namePC(mkAnd(saved.pc, guard))
		e.st = br
		r := e.asBool(e.ev(x.Y))
		br = e.st
		other := saved.clone()
		other.pc = e.namePC(mkAnd(saved.pc, mkNot(guard)))
		e.st = e.merge(br, other)
		if x.Op == token.LAND {
			return bv(mkAnd(l, r))
		}
		return bv(mkOr(l, r))
	}
	a := e.ev(x.X)
	b := e.ev(x.Y)
	ta, tb := e.typeOf(x.X), e.typeOf(x.Y)
	switch x.Op {
	case token.EQL, token.NEQ, token.LSS, token.LEQ, token.GTR, token.GEQ:
		return e.compare(x.Op, a, b, ta, tb)
	}
	return e.arith(x.Op, a, b, e.typeOf(x), false)
}

func hasCall(x ast.Expr) bool {
	found := false
	ast.Inspect(x, func(n ast.Node) bool {
		switch n.(type) {
		case *ast.CallExpr:
			found = true
		case *ast.UnaryExpr:
			if n.(*ast.UnaryExpr).Op == token.ARROW {
				found = true
			}
		case *ast.FuncLit:
			return false
		}
		return !found
	})
	return found
}

func (e *Exec) compare(op token.Token, a, b Val, ta, tb types.Type) Val {
	// two slice values (specifications only; Go itself compares slices only against nil): same header
	if sa, ok := a.(SliceV); ok {
		if sb, ok := b.(SliceV); ok && sa.Base == "0" && sb.Base != "0" {
			// nil == s
			r := mkEq(sb.Base, "0")
			if op == token.NEQ {
				r = mkNot(r)
			}
			return bv(r)
		}
		if sb, ok := b.(SliceV); ok && sa.Base != "0" && sb.Base != "0" {
			r := mkAnd(mkEq(sa.Base, sb.Base), mkEq(sa.Off, sb.Off), mkEq(sa.Len, sb.Len))
			if op == token.NEQ {
				r = mkNot(r)
			}
			return bv(r)
		}
	}
	// slices compare only against nil
	if sa, ok := a.(SliceV); ok {
		r := mkEq(sa.Base, "0")
		if op == token.NEQ {
			r = mkNot(r)
		}
		return bv(r)
	}
	if sb, ok := b.(SliceV); ok {
		r := mkEq(sb.Base, "0")
		if op == token.NEQ {
			r = mkNot(r)
		}
		return bv(r)
	}
	if f, ok := a.(FuncV); ok && f.ID != "" {
		a = iv(f.ID) // a function literal of the function under contract: compared by identity (closure(k))
	}
	if f, ok := b.(FuncV); ok && f.ID != "" {
		b = iv(f.ID)
	}
	if _, ok := a.(FuncV); ok {
		return bv(boolConst(op == token.NEQ))
	}
	if _, ok := b.(FuncV); ok {
		return bv(boolConst(op == token.NEQ))
	}
	if c, ok := a.(ChoiceV); ok {
		return bv(mkIte(c.Cond, e.asBool(e.compare(op, c.A, b, ta, tb)), e.asBool(e.compare(op, c.B, b, ta, tb))))
	}
	if c, ok := b.(ChoiceV); ok {
		return bv(mkIte(c.Cond, e.asBool(e.compare(op, a, c.A, ta, tb)), e.asBool(e.compare(op, a, c.B, ta, tb))))
	}
	x, okx := a.(SV)
	y, oky := b.(SV)
	if !okx || !oky {
		e.warn("comparison of unsupported values %T %T", a, b)
		return bv(e.fresh("cmp", SBool))
	}
	if op == token.EQL || op == token.NEQ {
		var r string
		if kindOf(ta) == kStruct && kindOf(tb) == kStruct {
			r = e.structEq(x.T, y.T, ta)
		} else if x.S != y.S {
			r = mkEq(e.asInt(x), e.asInt(y))
		} else {
			r = mkEq(x.T, y.T)
		}
		if op == token.NEQ {
			r = mkNot(r)
		}
		return bv(r)
	}
	k := kindOf(ta)
	if k == kString || k == kFloat || kindOf(tb) == kFloat {
		fn := "ord." + map[kind]string{kString: "str", kFloat: "flt"}[k]
		if k != kString {
			fn = "ord.flt"
		}
		e.declareFun(fn, []string{SInt, SInt}, SInt) // three-way comparison
		c := sx(fn, x.T, y.T)
		switch op {
		case token.LSS:
			return bv(sx("<", c, "0"))
		case token.LEQ:
			return bv(sx("<=", c, "0"))
		case token.GTR:
			return bv(sx(">", c, "0"))
		default:
			return bv(sx(">=", c, "0"))
		}
	}
	ops := map[token.Token]string{token.LSS: "<", token.LEQ: "<=", token.GTR: ">", token.GEQ: ">="}
	return bv(sx(ops[op], x.T, y.T))
}

func boolConst(b bool) string {
	if b {
		return tTrue
	}
	return tFalse
}

func (e *Exec) structEq(a, b string, t types.Type) string {
	st, _ := structOf(t)
	if st == nil {
		return mkEq(a, b)
	}
	var cs []string
	for i := 0; i < st.NumFields(); i++ {
		f := st.Field(i)
		va, vb := e.readField(a, t, f), e.readField(b, t, f)
		switch kindOf(f.Type()) {
		case kStruct:
			cs = append(cs, e.structEq(va.(SV).T, vb.(SV).T, f.Type()))
		case kSlice, kArray:
			// not comparable / arrays not modelled
		default:
			cs = append(cs, mkEq(va.(SV).T, vb.(SV).T))
		}
	}
	return mkAnd(cs...)
}

// arith computes a op b at result type t. spec=true: mathematical integers, no wrap.
func (e *Exec) arith(op token.Token, a, b Val, t types.Type, spec bool) Val {
	if c, ok := a.(ChoiceV); ok {
		return e.mergeVal(c.Cond, e.arith(op, c.A, b, t, spec), e.arith(op, c.B, b, t, spec), "ar")
	}
	x, okx := a.(SV)
	y, oky := b.(SV)
	if !okx || !oky {
		e.warn("arithmetic on unsupported values %T %T", a, b)
		return e.havocVal("ar", t)
	}
	k := kindOf(t)
	if k == kString && op == token.ADD {
		e.declareFun("strcat", []string{SInt, SInt}, SInt)
		r := sx("strcat", x.T, y.T)
		e.addFact(mkEq(sx("strlen", r), sx("+", sx("strlen", x.T), sx("strlen", y.T))))
		return iv(r)
	}
	if k == kFloat {
		fn := "flt." + map[token.Token]string{token.ADD: "add", token.SUB: "sub", token.MUL: "mul", token.QUO: "div"}[op]
		e.declareFun(fn, []string{SInt, SInt}, SInt)
		return iv(sx(fn, x.T, y.T))
	}
	if k == kBool {
		switch op {
		case token.AND, token.LAND:
			return bv(mkAnd(x.T, y.T))
		case token.OR, token.LOR:
			return bv(mkOr(x.T, y.T))
		}
	}
	var r string
	exact := true
	switch op {
	case token.ADD:
		r = mkAdd(x.T, y.T)
	case token.SUB:
		r = mkSub(x.T, y.T)
	case token.MUL:
		r = sx("*", x.T, y.T)
	case token.QUO:
		r = sx("tdiv", x.T, y.T)
		if isIntLit(y.T) && !strings.HasPrefix(y.T, "(") && y.T != "0" {
			// positive constant divisor: keep the definition visible to linear arithmetic
			r = sx("tdiv", x.T, y.T)
		}
	case token.REM:
		r = sx("tmod", x.T, y.T)
	case token.SHL:
		if p, ok := pow2(y.T); ok {
			r = sx("*", x.T, p)
		} else {
			e.declareFun("shl", []string{SInt, SInt}, SInt)
			r = sx("shl", x.T, y.T)
			exact = false
		}
	case token.SHR:
		if p, ok := pow2(y.T); ok {
			r = sx("div", x.T, p)
		} else {
			e.declareFun("shr", []string{SInt, SInt}, SInt)
			r = sx("shr", x.T, y.T)
			exact = false
		}
	case token.AND, token.OR, token.XOR, token.AND_NOT:
		fn := map[token.Token]string{token.AND: "bitand", token.OR: "bitor", token.XOR: "bitxor", token.AND_NOT: "bitandnot"}[op]
		e.declareFun(fn, []string{SInt, SInt}, SInt)
		r = sx(fn, x.T, y.T)
		exact = false
		if op == token.AND {
			// x & (2^k-1) == x mod 2^k for any two's complement x
			if m, ok := mask2(y.T); ok {
				r = sx("mod", x.T, m)
				exact = true
			}
		}
		if !exact {
			e.warn("bitwise operator %s is uninterpreted", op)
		}
	default:
		e.warn("unsupported arithmetic operator %s", op)
		return e.havocVal("ar", t)
	}
	if spec || !e.wrap || !exact {
		if !exact {
			if lo, hi, ok := intRange(t); ok {
				e.addFact(mkAnd(sx("<=", lo, r), sx("<=", r, hi)))
			}
		}
		return iv(r)
	}
	switch op {
	case token.ADD, token.SUB, token.MUL, token.SHL:
		return iv(e.wrapTo(r, t))
	case token.QUO:
		// MinInt / -1 wraps; everything else is exact
		return iv(e.wrapTo(r, t))
	}
	return iv(r)
}

// wrapTo reduces r into the range of t with exact two's complement semantics.
func (e *Exec) wrapTo(r string, t types.Type) string {
	lo, hi, ok := intRange(t)
	m := intModulus(t)
	if !ok || m == "" {
		return r
	}
	if isIntLit(r) {
		return r
	}
	res := e.fresh("w", SInt)
	k := e.fresh("k", SInt)
	e.addFact(mkAnd(mkEq(res, sx("-", r, sx("*", k, m))), sx("<=", lo, res), sx("<=", res, hi)))
	return res
}

func pow2(lit string) (string, bool) {
	if !isIntLit(lit) || strings.HasPrefix(lit, "(") {
		return "", false
	}
	var n int
	if _, err := fmt.Sscanf(lit, "%d", &n); err != nil || n < 0 || n > 200 {
		return "", false
	}
	v := constant.Shift(constant.MakeInt64(1), token.SHL, uint(n))
	return v.ExactString(), true
}

func mask2(lit string) (string, bool) {
	if !isIntLit(lit) || strings.HasPrefix(lit, "(") {
		return "", false
	}
	v := constant.MakeFromLiteral(lit, token.INT, 0)
	v1 := constant.BinaryOp(v, token.ADD, constant.MakeInt64(1))
	// power of two?
	for n := uint(1); n <= 64; n++ {
		if constant.Compare(v1, token.EQL, constant.Shift(constant.MakeInt64(1), token.SHL, n)) {
			return v1.ExactString(), true
		}
	}
	return "", false
}

func (e *Exec) evIndex(x *ast.IndexExpr) Val {
	// generic instantiation f[T]
	if tv, ok := e.info().Types[x.X]; ok {
		if _, isSig := tv.Type.Underlying().(*types.Signature); isSig {
			return e.ev(x.X)
		}
	}
	base := e.ev(x.X)
	bt := e.typeOf(x.X)
	switch u := bt.Underlying().(type) {
	case *types.Map:
		m, ok := base.(SV)
		if !ok {
			return e.havocVal("mv", u.Elem())
		}
		k := e.mapKey(e.ev(x.Index), u.Key())
		v := e.mapRead(m.T, k, u.Elem())
		e.refFacts(v, u.Elem())
		if tu, ok := e.typeOf(x).(*types.Tuple); ok && tu.Len() == 2 {
			return TupleV{v, bv(e.mapHas(m.T, k))}
		}
		return v
	case *types.Slice, *types.Array:
		s, ok := base.(SliceV)
		if !ok {
			return e.havocVal("el", elemType(bt))
		}
		i := e.asInt(e.ev(x.Index))
		v := e.readElem(s, i, elemType(bt))
		e.refFacts(v, elemType(bt))
		return v
	case *types.Pointer: // pointer to array
		s, ok := base.(SliceV)
		if ok {
			return e.readElem(s, e.asInt(e.ev(x.Index)), elemType(bt))
		}
	case *types.Basic: // string index
		e.declareFun("strat", []string{SInt, SInt}, SInt)
		r := sx("strat", e.asInt(base), e.asInt(e.ev(x.Index)))
		e.addFact(mkAnd(sx("<=", "0", r), sx("<=", r, "255")))
		return iv(r)
	}
	e.warn("unsupported index base %s", bt)
	return e.havocVal("idx", e.typeOf(x))
}

func (e *Exec) refFacts(v Val, t types.Type) {
	switch x := v.(type) {
	case SV:
		k := kindOf(t)
		if k == kStruct && strings.HasPrefix(x.T, "(sub.") {
			return
		}
		if k == kRef || k == kStruct {
			if _, isMap := t.Underlying().(*types.Map); isMap {
				e.declareFun("maptag", []string{SInt}, SInt)
				e.assume(mkOr(mkEq(x.T, "0"), mkEq(sx("maptag", x.T), mkInt(int64(e.g.typeID(t.Underlying()))))))
			}
			e.assume(e.existing(x.T))
		} else if k == kInt {
			if lo, hi, ok := intRange(t); ok && !isIntLit(x.T) {
				e.assume(mkAnd(sx("<=", lo, x.T), sx("<=", x.T, hi)))
			}
		}
	case SliceV:
		e.sliceFacts(x)
	}
}

// mapKey converts a key value into an Int term.
func (e *Exec) mapKey(v Val, kt types.Type) string {
	switch kindOf(kt) {
	case kStruct:
		// struct keys: an uninterpreted hash of the field values (injective by construction is not
		// provable here; equal structs give equal keys, which is what lookups need)
		if sv, ok := v.(SV); ok {
			st, _ := structOf(kt)
			args := []string{}
			sorts := []string{}
			for i := 0; st != nil && i < st.NumFields(); i++ {
				fv := e.readField(sv.T, kt, st.Field(i))
				args = append(args, e.asInt(fv))
				sorts = append(sorts, SInt)
			}
			fn := "skey." + smtName(types.TypeString(kt, nil))
			if len(args) == 0 {
				return sv.T
			}
			e.declareFun(fn, sorts, SInt)
			return sx(fn, args...)
		}
	}
	return e.asInt(v)
}

func (e *Exec) evSliceExpr(x *ast.SliceExpr) Val {
	base := e.ev(x.X)
	bt := e.typeOf(x.X)
	if kindOf(bt) == kString {
		e.declareFun("substr", []string{SInt, SInt, SInt}, SInt)
		lo, hi := "0", sx("strlen", e.asInt(base))
		if x.Low != nil {
			lo = e.asInt(e.ev(x.Low))
		}
		if x.High != nil {
			hi = e.asInt(e.ev(x.High))
		}
		r := sx("substr", e.asInt(base), lo, hi)
		e.addFact(mkEq(sx("strlen", r), mkSub(hi, lo)))
		return iv(r)
	}
	s, ok := base.(SliceV)
	if !ok {
		e.warn("slice expression on unsupported base %T", base)
		return e.havocVal("sl", e.typeOf(x))
	}
	lo := "0"
	if x.Low != nil {
		lo = e.asInt(e.ev(x.Low))
	}
	hi := s.Len
	if x.High != nil {
		hi = e.asInt(e.ev(x.High))
	}
	cp := mkSub(s.Cap, lo)
	if x.Max != nil {
		cp = mkSub(e.asInt(e.ev(x.Max)), lo)
	}
	return SliceV{Base: s.Base, Off: mkAdd(s.Off, lo), Len: mkSub(hi, lo), Cap: cp}
}

func (e *Exec) evCompositeLit(x *ast.CompositeLit) Val {
	t := e.typeOf(x)
	switch u := t.Underlying().(type) {
	case *types.Struct:
		r := e.allocRef("lit")
		e.initStruct(r, t)
		for i, el := range x.Elts {
			if kv, ok := el.(*ast.KeyValueExpr); ok {
				name := kv.Key.(*ast.Ident).Name
				for j := 0; j < u.NumFields(); j++ {
					if u.Field(j).Name() == name {
						e.writeField(r, t, u.Field(j), e.evConv(kv.Value, u.Field(j).Type()))
					}
				}
			} else if i < u.NumFields() {
				e.writeField(r, t, u.Field(i), e.evConv(el, u.Field(i).Type()))
			}
		}
		return iv(r)
	case *types.Pointer:
		// &T{} elided inside composite literals
		r := e.allocRef("lit")
		e.initStruct(r, u.Elem())
		return iv(r)
	case *types.Slice, *types.Array:
		base := e.allocRef("slit")
		n := int64(len(x.Elts))
		s := SliceV{base, "0", mkInt(n), mkInt(n)}
		et := elemType(t)
		for i, el := range x.Elts {
			if kv, ok := el.(*ast.KeyValueExpr); ok {
				el = kv.Value
			}
			e.writeElem(s, mkInt(int64(i)), et, e.evConv(el, et))
		}
		return s
	case *types.Map:
		m := e.newMapT(t)
		for _, el := range x.Elts {
			if kv, ok := el.(*ast.KeyValueExpr); ok {
				e.mapWrite(m, e.mapKey(e.ev(kv.Key), u.Key()), u.Elem(), e.evConv(kv.Value, u.Elem()))
			}
		}
		return iv(m)
	}
	e.warn("unsupported composite literal %s", t)
	return e.havocVal("lit", t)
}

// evConv evaluates x for assignment to a location of type t (implicit interface conversion).
func (e *Exec) evConv(x ast.Expr, t types.Type) Val {
	v := e.ev(x)
	return e.convAssign(v, e.typeOf(x), t)
}

// convAssign: value copy semantics for structs; interface boxing records the dynamic type.
func (e *Exec) convAssign(v Val, from, to types.Type) Val {
	if to != nil && kindOf(to) == kSlice {
		if sv, ok := v.(SV); ok && sv.T == "0" {
			return SliceV{"0", "0", "0", "0"} // nil slice
		}
	}
	if from == nil || to == nil {
		return v
	}
	if kindOf(to) == kStruct && kindOf(from) == kStruct {
		if sv, ok := v.(SV); ok {
			r := e.allocRef("cp")
			e.copyStruct(r, sv.T, to)
			return iv(r)
		}
	}
	if _, isIface := to.Underlying().(*types.Interface); isIface {
		if _, fromIface := from.Underlying().(*types.Interface); !fromIface && kindOf(from) != kOther {
			if b, ok := from.(*types.Basic); ok && b.Kind() == types.UntypedNil {
				return v
			}
			return e.box(v, from)
		}
	}
	return v
}

// box converts a concrete value into an interface value.
func (e *Exec) box(v Val, from types.Type) Val {
	tid := mkInt(int64(e.g.typeID(from)))
	switch kindOf(from) {
	case kRef, kStruct:
		sv, ok := v.(SV)
		if !ok {
			return iv(e.fresh("boxed", SInt))
		}
		e.unwrapFacts(sv.T, from)
		if _, isPtr := from.Underlying().(*types.Pointer); isPtr {
			// nil pointer in interface is a non-nil interface; we identify interface value and pointer
			// (a typed-nil-in-interface is outside the modelled subset)
			e.assume(mkImp(mkNot(mkEq(sv.T, "0")), mkEq(sx("dyntype", sv.T), tid)))
			return sv
		}
		e.assume(mkImp(mkNot(mkEq(sv.T, "0")), mkEq(sx("dyntype", sv.T), tid)))
		return sv
	case kSlice:
		return iv(e.fresh("boxed", SInt))
	default:
		// scalars boxed into interfaces: injective boxing function per type
		sv, ok := v.(SV)
		if !ok {
			return iv(e.fresh("boxed", SInt))
		}
		fn := fmt.Sprintf("box.%d", e.g.typeID(from))
		un := fmt.Sprintf("unbox.%d", e.g.typeID(from))
		e.declareFun(fn, []string{SInt}, SInt)
		e.declareFun(un, []string{SInt}, SInt)
		b := sx(fn, e.asInt(sv))
		e.addFact(mkAnd(mkEq(sx(un, b), e.asInt(sv)), mkEq(sx("dyntype", b), tid), mkNot(mkEq(b, "0"))))
		return iv(b)
	}
}

// assertType models x.(T). assumeOK: the single-result form.
func (e *Exec) assertType(v Val, t types.Type, assumeOK bool) Val {
	sv, ok := v.(SV)
	if !ok {
		return v
	}
	if _, isIface := t.Underlying().(*types.Interface); isIface {
		okT := e.ifaceImpl(sv.T, t)
		if assumeOK {
			e.assume(okT)
			return sv
		}
		return TupleV{iv(mkIte(okT, sv.T, "0")), bv(okT)}
	}
	tid := mkInt(int64(e.g.typeID(t)))
	okT := mkAnd(mkNot(mkEq(sv.T, "0")), mkEq(sx("dyntype", sv.T), tid))
	var res Val = sv
	switch kindOf(t) {
	case kRef, kStruct:
	default:
		un := fmt.Sprintf("unbox.%d", e.g.typeID(t))
		e.declareFun(un, []string{SInt}, SInt)
		if kindOf(t) == kBool {
			res = bv(mkNot(mkEq(sx(un, sv.T), "0")))
		} else if kindOf(t) == kSlice {
			res = e.havocVal("unboxed", t)
		} else {
			res = iv(sx(un, sv.T))
		}
	}
	if assumeOK {
		e.assume(okT)
		return res
	}
	if r, isSV := res.(SV); isSV && r.S == SInt {
		res = iv(mkIte(okT, r.T, "0"))
	}
	return TupleV{res, bv(okT)}
}

func (e *Exec) ifaceImpl(v string, iface types.Type) string {
	e.declareFun("implements", []string{SInt, SInt}, SBool)
	return mkAnd(mkNot(mkEq(v, "0")), sx("implements", sx("dyntype", v), mkInt(int64(e.g.typeID(iface)))))
}

// unwrapFacts: a value of a type whose Unwrap() method returns one of its fields wraps that field's value.
func (e *Exec) unwrapFacts(ref string, t types.Type) {
	ms := types.NewMethodSet(t)
	sel := ms.Lookup(nil, "Unwrap")
	if sel == nil {
		for i := 0; i < ms.Len(); i++ {
			if ms.At(i).Obj().Name() == "Unwrap" {
				sel = ms.At(i)
			}
		}
	}
	if sel == nil {
		return
	}
	fn, ok := sel.Obj().(*types.Func)
	if !ok {
		return
	}
	fi := e.g.funcs[fn.Origin()]
	if fi == nil || len(fi.decl.Body.List) != 1 || fi.decl.Recv == nil || len(fi.decl.Recv.List[0].Names) == 0 {
		return
	}
	ret, ok := fi.decl.Body.List[0].(*ast.ReturnStmt)
	if !ok || len(ret.Results) != 1 {
		return
	}
	se, ok := ret.Results[0].(*ast.SelectorExpr)
	if !ok {
		return
	}
	id, ok := se.X.(*ast.Ident)
	if !ok || id.Name != fi.decl.Recv.List[0].Names[0].Name {
		return
	}
	st, _ := structOf(t)
	if st == nil {
		return
	}
	for i := 0; i < st.NumFields(); i++ {
		if st.Field(i).Name() == se.Sel.Name {
			w := e.asInt(e.readField(ref, t, st.Field(i)))
			e.declareFun("wraps", []string{SInt, SInt}, SBool)
			e.assume(mkImp(mkNot(mkEq(w, "0")), mkAnd(sx("wraps", ref, w),
				fmt.Sprintf("(forall ((s Int)) (! (=> (wraps %s s) (wraps %s s)) :pattern ((wraps %s s))))", w, ref, ref))))
		}
	}
}

func (e *Exec) topContractClosures() map[int]*Contract {
	if e.parentClosures != nil {
		return e.parentClosures
	}
	if e.contract != nil {
		return e.contract.Closures
	}
	return nil
}

// invokeEscaped models "an escaped closure may have run during this call".
func (e *Exec) invokeEscaped() {
	for _, es := range e.escaped {
		vars := assignedFreeVars(es.lit, es.pkg.TypesInfo)
		if len(vars) == 0 {
			continue
		}
		old := e.st.clone()
		for _, v := range vars {
			if _, ok := e.st.vars[v]; ok {
				e.st.vars[v] = e.havocVal(v.Name(), v.Type())
			}
		}
		env := e.topEnv(e.st)
		env.old = old
		env.scopePos = es.lit.Body.Lbrace + 1
		env.entry = nil
		var gs []string
		for _, g := range es.ct.Guarantees {
			gs = append(gs, e.specBool(g, env))
		}
		// either it did not run (nothing changed) or the guarantee relates before and after
		var same []string
		for _, v := range vars {
			if ov, ok := old.vars[v].(SV); ok {
				if nv, ok := e.st.vars[v].(SV); ok {
					same = append(same, mkEq(ov.T, nv.T))
				}
			}
		}
		e.assume(mkOr(mkAnd(same...), mkAnd(gs...)))
		e.trusted["closure "+es.ct.Key+": guarantee (verified separately as obligation guarantee#*)"] = true
	}
}
