package main

// Parsing of contract files (//@ lines) and of specification expressions.
//
// Spec expressions use Go expression syntax extended with
//   A ==> B, A <==> B            (lowest precedence, ==> right associative)
//   forall x T, y U :: body      exists x T :: body
//   old(e), ite(c,a,b), has(m,k), called(f,k), ret(f,k[,i]), arg(f,k,i)
// They are parsed into go/ast nodes; the extensions are encoded as CallExprs whose
// Fun is an identifier starting with '$'.

import (
	"fmt"
	"go/ast"
	"go/scanner"
	"go/token"
	"os"
	"strconv"
	"strings"
)

type Clause struct {
	Text string
	Expr ast.Expr
	File string
	Line int
}

type LoopSpec struct {
	Invariants []Clause
	Decreases  *Clause
	Iteration  []Clause // proved at the end of every iteration that completes normally (body locals in scope)
	AtBreak    []Clause // proved at every `break` that leaves the loop (prev(e) = value when that iteration started)
}

type CallsiteSpec struct {
	Callee string // simple name
	Ord    int    // -1: every call site
	Req    Clause
}

type Contract struct {
	Key      string // "Func" or "(*T).Func" or "(T).Func"; closures: parentKey + "$k"
	File     string
	Line     int
	Props    []string
	Requires []Clause
	Ensures  []Clause
	Modifies []Clause
	HasMod   bool
	Loops    map[int]*LoopSpec
	Calls    []CallsiteSpec
	Uses     []string
	Arith    string   // "" (math) | "wrap"
	Inline   []string // callee simple names forced inline
	NoInline []string
	Trusted  bool // contract assumed, body not verified
	Pure     bool
	Closures map[int]*Contract
	Asserts  []AssertSpec
	ChanInvs map[string]*PredDef // channel expression text -> invariant of the values sent on it (one parameter)
	Opaque   []string // callee simple names to treat as havoc
	Fresh    bool     // results are fresh allocations
	Bounded  string
	Instances []Clause
	NoFrame  bool // no frame condition is stated or checked; callers havoc the whole heap
	Guarantees []Clause // two-state relation on captured variables established by every invocation of a closure
}

type AssertSpec struct {
	Before string // callee simple name
	Ord    int
	C      Clause
}

type PredDef struct {
	Name   string
	Params []ParamDef
	Body   Clause
}

type ParamDef struct {
	Name string
	Type ast.Expr
}

type SpecFn struct {
	Name      string
	Params    []ParamDef
	Result    ast.Expr
	Body      *Clause // nil: uninterpreted
	Recursive bool
}

type Lemma struct {
	Patterns  []Clause
	Base      *Clause
	Uses      []string
	Name      string
	Params    []ParamDef
	Requires  []Clause
	Ensures   []Clause
	Induction string // param name, "" = direct
	Props     []string
	Line      int
	File      string
}

type ExternSpec struct {
	Key      string // "pkgpath.Func" or "pkgpath.Type.Method" (pointer receivers without *)
	Params   []string
	Results  []string
	Pure     bool
	Def      *Clause // result == Def
	Requires []Clause
	Ensures  []Clause
	Modifies []Clause
	File     string
	Line     int
	Fresh    bool
}

type SpecFile struct {
	Pkg       string // go package path this file belongs to ("" for extern files)
	Contracts map[string]*Contract
	Preds     map[string]*PredDef
	Fns       map[string]*SpecFn
	Lemmas    map[string]*Lemma
	Externs   map[string]*ExternSpec
	Consts    map[string]Clause
	Order     []string
	Ghosts    [][2]string
	LockInvs  map[string]*PredDef // "Type.field" -> invariant with one parameter (the owner)
}

var clauseKeywords = map[string]bool{
	"func": true, "requires": true, "ensures": true, "modifies": true, "loop": true,
	"pred": true, "spec": true, "lemma": true, "uses": true, "arith": true, "prop": true,
	"callsite": true, "closure": true, "extern": true, "assert": true, "trusted": true,
	"inline": true, "noinline": true, "pure": true, "const": true, "opaque": true, "fresh": true,
	"end": true, "bounded": true, "pattern": true, "base": true, "ghost": true, "instance": true, "guarantee": true, "noframe": true, "lockinv": true, "chaninv": true,
}

type rawClause struct {
	kw   string
	rest string
	line int
}

// readClauses extracts logical clauses. In .go files only lines starting with //@ count;
// in .spec files every non-comment line counts.
func readClauses(path string) ([]rawClause, error) {
	data, err := os.ReadFile(path)
	if err != nil {
		return nil, err
	}
	isGo := strings.HasSuffix(path, ".go")
	var out []rawClause
	for i, ln := range strings.Split(string(data), "\n") {
		s := strings.TrimSpace(ln)
		if isGo {
			if !strings.HasPrefix(s, "//@") {
				continue
			}
			s = strings.TrimSpace(s[3:])
		} else {
			if j := strings.Index(s, "#"); j >= 0 {
				s = strings.TrimSpace(s[:j])
			}
		}
		if s == "" {
			continue
		}
		kw := s
		if j := strings.IndexAny(s, " \t"); j >= 0 {
			kw = s[:j]
		}
		if clauseKeywords[kw] {
			out = append(out, rawClause{kw: kw, rest: strings.TrimSpace(s[len(kw):]), line: i + 1})
		} else if len(out) > 0 {
			out[len(out)-1].rest += " " + s
		} else {
			return nil, fmt.Errorf("%s:%d: clause does not start with a keyword: %s", path, i+1, s)
		}
	}
	return out, nil
}

func newSpecFile() *SpecFile {
	return &SpecFile{Contracts: map[string]*Contract{}, Preds: map[string]*PredDef{}, Fns: map[string]*SpecFn{},
		Lemmas: map[string]*Lemma{}, Externs: map[string]*ExternSpec{}, Consts: map[string]Clause{}}
}

func parseSpecFile(path string, pkgPath string) (*SpecFile, error) {
	rcs, err := readClauses(path)
	if err != nil {
		return nil, err
	}
	sf := newSpecFile()
	sf.Pkg = pkgPath
	var cur *Contract  // current function contract (or closure)
	var top *Contract  // current top-level function contract
	var curL *Lemma    // current lemma
	var curE *ExternSpec
	var fileProps []string
	mk := func(rc rawClause, text string) (Clause, error) {
		e, err := parseSpecExpr(text)
		if err != nil {
			return Clause{}, fmt.Errorf("%s:%d: %v (in %q)", path, rc.line, err, text)
		}
		return Clause{Text: text, Expr: e, File: path, Line: rc.line}, nil
	}
	for _, rc := range rcs {
		switch rc.kw {
		case "prop":
			ps := strings.Fields(strings.ReplaceAll(rc.rest, ",", " "))
			if cur != nil {
				cur.Props = ps
			} else if curL != nil {
				curL.Props = ps
			} else {
				fileProps = ps
			}
		case "end":
			cur, top, curL, curE = nil, nil, nil, nil
		case "func":
			key := normFuncKey(rc.rest)
			c := &Contract{Key: key, File: path, Line: rc.line, Loops: map[int]*LoopSpec{}, Closures: map[int]*Contract{}, Props: fileProps}
			if _, dup := sf.Contracts[key]; dup {
				return nil, fmt.Errorf("%s:%d: duplicate contract for %s", path, rc.line, key)
			}
			sf.Contracts[key] = c
			sf.Order = append(sf.Order, key)
			cur, top, curL, curE = c, c, nil, nil
		case "closure":
			if top == nil {
				return nil, fmt.Errorf("%s:%d: closure outside func", path, rc.line)
			}
			k, err := strconv.Atoi(strings.TrimSpace(rc.rest))
			if err != nil {
				return nil, fmt.Errorf("%s:%d: closure ordinal: %v", path, rc.line, err)
			}
			c := &Contract{Key: fmt.Sprintf("%s$%d", top.Key, k), File: path, Line: rc.line, Loops: map[int]*LoopSpec{}, Closures: map[int]*Contract{}, Props: top.Props}
			top.Closures[k] = c
			cur = c
		case "requires", "ensures", "modifies":
			text := rc.rest
			if rc.kw == "modifies" {
				if cur == nil && curE == nil {
					return nil, fmt.Errorf("%s:%d: modifies outside func", path, rc.line)
				}
				var list []Clause
				if strings.TrimSpace(text) != "nothing" {
					for _, part := range splitTop(text, ',') {
						cl, err := mk(rc, strings.TrimSpace(part))
						if err != nil {
							return nil, err
						}
						list = append(list, cl)
					}
				}
				if curE != nil {
					curE.Modifies = append(curE.Modifies, list...)
				} else {
					cur.HasMod = true
					cur.Modifies = append(cur.Modifies, list...)
				}
				continue
			}
			cl, err := mk(rc, text)
			if err != nil {
				return nil, err
			}
			switch {
			case curL != nil:
				if rc.kw == "requires" {
					curL.Requires = append(curL.Requires, cl)
				} else {
					curL.Ensures = append(curL.Ensures, cl)
				}
			case curE != nil:
				if rc.kw == "requires" {
					curE.Requires = append(curE.Requires, cl)
				} else {
					curE.Ensures = append(curE.Ensures, cl)
				}
			case cur != nil:
				if rc.kw == "requires" {
					cur.Requires = append(cur.Requires, cl)
				} else {
					cur.Ensures = append(cur.Ensures, cl)
				}
			default:
				return nil, fmt.Errorf("%s:%d: %s outside func/lemma/extern", path, rc.line, rc.kw)
			}
		case "loop":
			// loop k invariant expr | loop k decreases expr
			f := strings.Fields(rc.rest)
			if len(f) < 3 || cur == nil {
				return nil, fmt.Errorf("%s:%d: malformed loop clause", path, rc.line)
			}
			k, err := strconv.Atoi(f[0])
			if err != nil {
				return nil, fmt.Errorf("%s:%d: loop ordinal: %v", path, rc.line, err)
			}
			text := strings.TrimSpace(strings.TrimPrefix(strings.TrimSpace(strings.TrimPrefix(rc.rest, f[0])), f[1]))
			cl, err := mk(rc, text)
			if err != nil {
				return nil, err
			}
			ls := cur.Loops[k]
			if ls == nil {
				ls = &LoopSpec{}
				cur.Loops[k] = ls
			}
			switch f[1] {
			case "invariant":
				ls.Invariants = append(ls.Invariants, cl)
			case "decreases":
				ls.Decreases = &cl
			case "iteration":
				ls.Iteration = append(ls.Iteration, cl)
			case "atbreak":
				ls.AtBreak = append(ls.AtBreak, cl)
			default:
				return nil, fmt.Errorf("%s:%d: loop clause kind %q", path, rc.line, f[1])
			}
		case "callsite":
			// callsite name#k requires expr   |  callsite name#* requires expr
			if cur == nil {
				return nil, fmt.Errorf("%s:%d: callsite outside func", path, rc.line)
			}
			i := strings.Index(rc.rest, " requires ")
			if i < 0 {
				return nil, fmt.Errorf("%s:%d: callsite without requires", path, rc.line)
			}
			name, ord, err := parseSite(strings.TrimSpace(rc.rest[:i]))
			if err != nil {
				return nil, fmt.Errorf("%s:%d: %v", path, rc.line, err)
			}
			cl, err := mk(rc, strings.TrimSpace(rc.rest[i+10:]))
			if err != nil {
				return nil, err
			}
			cur.Calls = append(cur.Calls, CallsiteSpec{Callee: name, Ord: ord, Req: cl})
		case "assert":
			// assert before name#k: expr
			if cur == nil {
				return nil, fmt.Errorf("%s:%d: assert outside func", path, rc.line)
			}
			r := strings.TrimSpace(rc.rest)
			if !strings.HasPrefix(r, "before ") {
				return nil, fmt.Errorf("%s:%d: assert needs 'before name#k:'", path, rc.line)
			}
			r = strings.TrimSpace(r[7:])
			i := strings.Index(r, ":")
			if i < 0 {
				return nil, fmt.Errorf("%s:%d: assert needs ':'", path, rc.line)
			}
			name, ord, err := parseSite(strings.TrimSpace(r[:i]))
			if err != nil {
				return nil, fmt.Errorf("%s:%d: %v", path, rc.line, err)
			}
			cl, err := mk(rc, strings.TrimSpace(r[i+1:]))
			if err != nil {
				return nil, err
			}
			cur.Asserts = append(cur.Asserts, AssertSpec{Before: name, Ord: ord, C: cl})
		case "noframe":
			if cur != nil {
				cur.NoFrame = true
			}
		case "guarantee":
			if cur == nil {
				return nil, fmt.Errorf("%s:%d: guarantee outside closure", path, rc.line)
			}
			cl, err := mk(rc, rc.rest)
			if err != nil {
				return nil, err
			}
			cur.Guarantees = append(cur.Guarantees, cl)
		case "instance":
			if cur == nil {
				return nil, fmt.Errorf("%s:%d: instance outside func", path, rc.line)
			}
			cl, err := mk(rc, rc.rest)
			if err != nil {
				return nil, err
			}
			cur.Instances = append(cur.Instances, cl)
		case "pattern":
			if curL == nil {
				return nil, fmt.Errorf("%s:%d: pattern outside lemma", path, rc.line)
			}
			for _, part := range splitTop(rc.rest, ',') {
				cl, err := mk(rc, strings.TrimSpace(part))
				if err != nil {
					return nil, err
				}
				curL.Patterns = append(curL.Patterns, cl)
			}
		case "base":
			if curL == nil {
				return nil, fmt.Errorf("%s:%d: base outside lemma", path, rc.line)
			}
			cl, err := mk(rc, rc.rest)
			if err != nil {
				return nil, err
			}
			curL.Base = &cl
		case "ghost":
			// ghost name sort
			f := strings.Fields(rc.rest)
			if len(f) != 2 {
				return nil, fmt.Errorf("%s:%d: ghost name sort", path, rc.line)
			}
			sf.Ghosts = append(sf.Ghosts, [2]string{f[0], f[1]})
		case "uses":
			if curL != nil {
				curL.Uses = append(curL.Uses, strings.Fields(strings.ReplaceAll(rc.rest, ",", " "))...)
			}
			if cur != nil {
				cur.Uses = append(cur.Uses, strings.Fields(strings.ReplaceAll(rc.rest, ",", " "))...)
			}
		case "arith":
			if cur != nil {
				cur.Arith = strings.TrimSpace(rc.rest)
			}
		case "inline":
			if cur != nil {
				cur.Inline = append(cur.Inline, strings.Fields(strings.ReplaceAll(rc.rest, ",", " "))...)
			}
		case "noinline":
			if cur != nil {
				cur.NoInline = append(cur.NoInline, strings.Fields(strings.ReplaceAll(rc.rest, ",", " "))...)
			}
		case "opaque":
			if cur != nil {
				cur.Opaque = append(cur.Opaque, strings.Fields(strings.ReplaceAll(rc.rest, ",", " "))...)
			}
		case "trusted":
			if cur != nil {
				cur.Trusted = true
			}
		case "bounded":
			if cur != nil {
				cur.Bounded = rc.rest
			}
		case "fresh":
			if curE != nil {
				curE.Fresh = true
			} else if cur != nil {
				cur.Fresh = true
			}
		case "pure":
			if curE != nil {
				curE.Pure = true
			} else if cur != nil {
				cur.Pure = true
			}
		case "const":
			// const NAME = expr
			i := strings.Index(rc.rest, "=")
			if i < 0 {
				return nil, fmt.Errorf("%s:%d: const without =", path, rc.line)
			}
			cl, err := mk(rc, strings.TrimSpace(rc.rest[i+1:]))
			if err != nil {
				return nil, err
			}
			sf.Consts[strings.TrimSpace(rc.rest[:i])] = cl
		case "chaninv":
			// chaninv ch(v T) = expr : every value sent on ch (by the function or its contracted closures) satisfies expr in
			// the sender's state; a receive from ch in the function may assume it
			name, params, rest, err := parseSig(rc.rest)
			if err != nil {
				return nil, fmt.Errorf("%s:%d: %v", path, rc.line, err)
			}
			rest = strings.TrimSpace(rest)
			if !strings.HasPrefix(rest, "=") || len(params) != 1 {
				return nil, fmt.Errorf("%s:%d: chaninv ch(v T) = expr", path, rc.line)
			}
			cl, err := mk(rc, strings.TrimSpace(rest[1:]))
			if err != nil {
				return nil, err
			}
			owner := top
			if owner == nil {
				owner = cur
			}
			if owner == nil {
				return nil, fmt.Errorf("%s:%d: chaninv outside func", path, rc.line)
			}
			if owner.ChanInvs == nil {
				owner.ChanInvs = map[string]*PredDef{}
			}
			owner.ChanInvs[name] = &PredDef{Name: name, Params: params, Body: cl}
		case "lockinv":
			// lockinv Type.field(x) = expr : monitor invariant of the lock field, assumed at Lock, proved at Unlock
			name, params, rest, err := parseSig(rc.rest)
			if err != nil {
				return nil, fmt.Errorf("%s:%d: %v", path, rc.line, err)
			}
			rest = strings.TrimSpace(rest)
			if !strings.HasPrefix(rest, "=") || len(params) != 1 {
				return nil, fmt.Errorf("%s:%d: lockinv Type.field(x *Type) = expr", path, rc.line)
			}
			cl, err := mk(rc, strings.TrimSpace(rest[1:]))
			if err != nil {
				return nil, err
			}
			if sf.LockInvs == nil {
				sf.LockInvs = map[string]*PredDef{}
			}
			sf.LockInvs[name] = &PredDef{Name: name, Params: params, Body: cl}
			cur, top, curL, curE = nil, nil, nil, nil
		case "pred":
			// pred name(params) = expr
			name, params, rest, err := parseSig(rc.rest)
			if err != nil {
				return nil, fmt.Errorf("%s:%d: %v", path, rc.line, err)
			}
			rest = strings.TrimSpace(rest)
			if !strings.HasPrefix(rest, "=") {
				return nil, fmt.Errorf("%s:%d: pred without body", path, rc.line)
			}
			cl, err := mk(rc, strings.TrimSpace(rest[1:]))
			if err != nil {
				return nil, err
			}
			sf.Preds[name] = &PredDef{Name: name, Params: params, Body: cl}
			cur, top, curL, curE = nil, nil, nil, nil
		case "spec":
			// spec fn name(params) T [rec] [= expr]
			r := strings.TrimSpace(rc.rest)
			if !strings.HasPrefix(r, "fn ") {
				return nil, fmt.Errorf("%s:%d: expected 'spec fn'", path, rc.line)
			}
			name, params, rest, err := parseSig(strings.TrimSpace(r[3:]))
			if err != nil {
				return nil, fmt.Errorf("%s:%d: %v", path, rc.line, err)
			}
			rest = strings.TrimSpace(rest)
			body := ""
			if i := strings.Index(rest, "="); i >= 0 {
				body = strings.TrimSpace(rest[i+1:])
				rest = strings.TrimSpace(rest[:i])
			}
			fn := &SpecFn{Name: name, Params: params}
			f := strings.Fields(rest)
			if len(f) == 0 {
				return nil, fmt.Errorf("%s:%d: spec fn needs result type", path, rc.line)
			}
			te, err := parseTypeText(f[0])
			if err != nil {
				return nil, fmt.Errorf("%s:%d: %v", path, rc.line, err)
			}
			fn.Result = te
			for _, w := range f[1:] {
				if w == "rec" {
					fn.Recursive = true
				}
			}
			if body != "" {
				cl, err := mk(rc, body)
				if err != nil {
					return nil, err
				}
				fn.Body = &cl
			}
			sf.Fns[name] = fn
			cur, top, curL, curE = nil, nil, nil, nil
		case "lemma":
			// lemma name(params) [induction x]
			name, params, rest, err := parseSig(rc.rest)
			if err != nil {
				return nil, fmt.Errorf("%s:%d: %v", path, rc.line, err)
			}
			l := &Lemma{Name: name, Params: params, Line: rc.line, File: path, Props: fileProps}
			f := strings.Fields(rest)
			if len(f) == 2 && f[0] == "induction" {
				l.Induction = f[1]
			}
			sf.Lemmas[name] = l
			cur, top, curE = nil, nil, nil
			curL = l
		case "extern":
			// extern key(params) (results) [pure] [= expr]
			r := strings.TrimSpace(rc.rest)
			i := strings.Index(r, "(")
			if i < 0 {
				return nil, fmt.Errorf("%s:%d: extern needs (params)", path, rc.line)
			}
			key := strings.TrimSpace(r[:i])
			j := matchParen(r, i)
			if j < 0 {
				return nil, fmt.Errorf("%s:%d: unbalanced", path, rc.line)
			}
			es := &ExternSpec{Key: key, File: path, Line: rc.line}
			for _, p := range strings.Split(r[i+1:j], ",") {
				if p = strings.TrimSpace(p); p != "" {
					es.Params = append(es.Params, p)
				}
			}
			rest := strings.TrimSpace(r[j+1:])
			if strings.HasPrefix(rest, "(") {
				k := matchParen(rest, 0)
				for _, p := range strings.Split(rest[1:k], ",") {
					if p = strings.TrimSpace(p); p != "" {
						es.Results = append(es.Results, p)
					}
				}
				rest = strings.TrimSpace(rest[k+1:])
			}
			if strings.HasPrefix(rest, "pure") {
				es.Pure = true
				rest = strings.TrimSpace(rest[4:])
			}
			if strings.HasPrefix(rest, "fresh") {
				es.Fresh = true
				rest = strings.TrimSpace(rest[5:])
			}
			if strings.HasPrefix(rest, "=") {
				cl, err := mk(rc, strings.TrimSpace(rest[1:]))
				if err != nil {
					return nil, err
				}
				es.Def = &cl
			}
			sf.Externs[key] = es
			cur, top, curL = nil, nil, nil
			curE = es
		default:
			return nil, fmt.Errorf("%s:%d: unhandled keyword %s", path, rc.line, rc.kw)
		}
	}
	return sf, nil
}

func parseSite(s string) (string, int, error) {
	i := strings.Index(s, "#")
	if i < 0 {
		return s, -1, nil
	}
	if s[i+1:] == "*" {
		return s[:i], -1, nil
	}
	k, err := strconv.Atoi(s[i+1:])
	if err != nil {
		return "", 0, fmt.Errorf("bad call-site ordinal in %q", s)
	}
	return s[:i], k, nil
}

// normFuncKey: "func (b *T) Name" / "(b *T) Name" / "Name" -> "(*T).Name" | "(T).Name" | "Name"
func normFuncKey(s string) string {
	s = strings.TrimSpace(s)
	if strings.HasPrefix(s, "(") {
		j := strings.Index(s, ")")
		recv := strings.Fields(s[1:j])
		t := recv[len(recv)-1]
		name := strings.TrimSpace(s[j+1:])
		if k := strings.Index(name, "("); k >= 0 {
			name = name[:k]
		}
		if k := strings.Index(t, "["); k >= 0 {
			t = t[:k]
		}
		return "(" + t + ")." + strings.TrimSpace(name)
	}
	if k := strings.Index(s, "("); k >= 0 {
		s = s[:k]
	}
	return strings.TrimSpace(s)
}

func matchParen(s string, i int) int {
	depth := 0
	for k := i; k < len(s); k++ {
		switch s[k] {
		case '(':
			depth++
		case ')':
			depth--
			if depth == 0 {
				return k
			}
		}
	}
	return -1
}

func splitTop(s string, sep byte) []string {
	var out []string
	depth := 0
	last := 0
	for i := 0; i < len(s); i++ {
		switch s[i] {
		case '(', '[', '{':
			depth++
		case ')', ']', '}':
			depth--
		default:
			if s[i] == sep && depth == 0 {
				out = append(out, s[last:i])
				last = i + 1
			}
		}
	}
	out = append(out, s[last:])
	return out
}

// parseSig parses "name(p1 T1, p2 T2) rest".
func parseSig(s string) (string, []ParamDef, string, error) {
	i := strings.Index(s, "(")
	if i < 0 {
		return "", nil, "", fmt.Errorf("signature needs (params): %q", s)
	}
	j := matchParen(s, i)
	if j < 0 {
		return "", nil, "", fmt.Errorf("unbalanced parens in %q", s)
	}
	name := strings.TrimSpace(s[:i])
	var params []ParamDef
	for _, p := range splitTop(s[i+1:j], ',') {
		p = strings.TrimSpace(p)
		if p == "" {
			continue
		}
		k := strings.IndexAny(p, " \t")
		if k < 0 {
			return "", nil, "", fmt.Errorf("param %q needs a type", p)
		}
		te, err := parseTypeText(strings.TrimSpace(p[k:]))
		if err != nil {
			return "", nil, "", err
		}
		params = append(params, ParamDef{Name: p[:k], Type: te})
	}
	return name, params, s[j+1:], nil
}

func parseTypeText(s string) (ast.Expr, error) {
	p := newSpecParser(s)
	t, err := p.parseType()
	if err != nil {
		return nil, err
	}
	if p.tok != token.EOF {
		return nil, fmt.Errorf("trailing tokens in type %q", s)
	}
	return t, nil
}

// ---------------------------------------------------------------------------
// expression parser

type specParser struct {
	s    scanner.Scanner
	fset *token.FileSet
	pos  token.Pos
	tok  token.Token
	lit  string
	err  error
	src  string
}

func newSpecParser(src string) *specParser {
	src = strings.ReplaceAll(src, "<==>", " __iff__ ")
	src = strings.ReplaceAll(src, "==>", " __imp__ ")
	src = strings.ReplaceAll(src, "::", " __dc__ ")
	p := &specParser{fset: token.NewFileSet(), src: src}
	f := p.fset.AddFile("spec", -1, len(src))
	p.s.Init(f, []byte(src), func(pos token.Position, msg string) {
		if p.err == nil {
			p.err = fmt.Errorf("scan: %s at %d", msg, pos.Offset)
		}
	}, 0)
	p.next()
	return p
}

func (p *specParser) next() {
	for {
		p.pos, p.tok, p.lit = p.s.Scan()
		if p.tok == token.SEMICOLON && p.lit == "\n" {
			continue // auto-inserted
		}
		break
	}
}

func (p *specParser) isIdent(name string) bool { return p.tok == token.IDENT && p.lit == name }

func parseSpecExpr(src string) (ast.Expr, error) {
	p := newSpecParser(src)
	e, err := p.parseExpr()
	if err != nil {
		return nil, err
	}
	if p.err != nil {
		return nil, p.err
	}
	if p.tok != token.EOF {
		return nil, fmt.Errorf("unexpected token %s %q at offset %d", p.tok, p.lit, int(p.pos))
	}
	return e, nil
}

func call(name string, args ...ast.Expr) ast.Expr {
	return &ast.CallExpr{Fun: ast.NewIdent(name), Args: args}
}

// expr := quant | iff
func (p *specParser) parseExpr() (ast.Expr, error) {
	if p.isIdent("forall") || p.isIdent("exists") {
		kind := "$" + p.lit
		p.next()
		var args []ast.Expr
		for {
			if p.tok != token.IDENT {
				return nil, fmt.Errorf("quantifier: expected variable name")
			}
			var names []string
			names = append(names, p.lit)
			p.next()
			for p.tok == token.COMMA {
				// could be "x, y T" or "x T, y U": look ahead is hard; support "x T, y U" only
				break
			}
			t, err := p.parseType()
			if err != nil {
				return nil, err
			}
			for _, n := range names {
				args = append(args, ast.NewIdent(n), t)
			}
			if p.tok == token.COMMA {
				p.next()
				continue
			}
			break
		}
		if !p.isIdent("__dc__") {
			return nil, fmt.Errorf("quantifier: expected '::'")
		}
		p.next()
		body, err := p.parseExpr()
		if err != nil {
			return nil, err
		}
		args = append(args, body)
		return call(kind, args...), nil
	}
	return p.parseIff()
}

func (p *specParser) parseIff() (ast.Expr, error) {
	l, err := p.parseImp()
	if err != nil {
		return nil, err
	}
	for p.isIdent("__iff__") {
		p.next()
		r, err := p.parseImp()
		if err != nil {
			return nil, err
		}
		l = call("$iff", l, r)
	}
	return l, nil
}

func (p *specParser) parseImp() (ast.Expr, error) {
	l, err := p.parseBin(1)
	if err != nil {
		return nil, err
	}
	if p.isIdent("__imp__") {
		p.next()
		var r ast.Expr
		if p.isIdent("forall") || p.isIdent("exists") {
			r, err = p.parseExpr()
		} else {
			r, err = p.parseImp()
		}
		if err != nil {
			return nil, err
		}
		return call("$imp", l, r), nil
	}
	return l, nil
}

func (p *specParser) parseBin(prec int) (ast.Expr, error) {
	l, err := p.parseUnary()
	if err != nil {
		return nil, err
	}
	for {
		op := p.tok
		opp := op.Precedence()
		if opp < prec || !op.IsOperator() {
			return l, nil
		}
		switch op {
		case token.LOR, token.LAND, token.EQL, token.NEQ, token.LSS, token.LEQ, token.GTR, token.GEQ,
			token.ADD, token.SUB, token.MUL, token.QUO, token.REM, token.AND, token.OR, token.SHL, token.SHR, token.XOR:
		default:
			return l, nil
		}
		p.next()
		var r ast.Expr
		if (op == token.LAND || op == token.LOR) && (p.isIdent("forall") || p.isIdent("exists")) {
			r, err = p.parseExpr()
		} else {
			r, err = p.parseBin(opp + 1)
		}
		if err != nil {
			return nil, err
		}
		l = &ast.BinaryExpr{X: l, Op: op, Y: r}
	}
}

func (p *specParser) parseUnary() (ast.Expr, error) {
	switch p.tok {
	case token.NOT, token.SUB, token.ADD:
		op := p.tok
		p.next()
		x, err := p.parseUnary()
		if err != nil {
			return nil, err
		}
		return &ast.UnaryExpr{Op: op, X: x}, nil
	case token.MUL:
		p.next()
		x, err := p.parseUnary()
		if err != nil {
			return nil, err
		}
		return &ast.StarExpr{X: x}, nil
	case token.AND:
		p.next()
		x, err := p.parseUnary()
		if err != nil {
			return nil, err
		}
		return &ast.UnaryExpr{Op: token.AND, X: x}, nil
	}
	return p.parsePostfix()
}

func (p *specParser) parsePostfix() (ast.Expr, error) {
	x, err := p.parsePrimary()
	if err != nil {
		return nil, err
	}
	for {
		switch p.tok {
		case token.PERIOD:
			p.next()
			if p.tok != token.IDENT {
				return nil, fmt.Errorf("expected field name after '.'")
			}
			x = &ast.SelectorExpr{X: x, Sel: ast.NewIdent(p.lit)}
			p.next()
		case token.LBRACK:
			p.next()
			var lo, hi ast.Expr
			isSlice := false
			if p.tok != token.COLON {
				lo, err = p.parseExpr()
				if err != nil {
					return nil, err
				}
			}
			if p.tok == token.COLON {
				isSlice = true
				p.next()
				if p.tok != token.RBRACK {
					hi, err = p.parseExpr()
					if err != nil {
						return nil, err
					}
				}
			}
			if p.tok != token.RBRACK {
				return nil, fmt.Errorf("expected ']'")
			}
			p.next()
			if isSlice {
				x = &ast.SliceExpr{X: x, Low: lo, High: hi}
			} else {
				x = &ast.IndexExpr{X: x, Index: lo}
			}
		case token.LPAREN:
			p.next()
			var args []ast.Expr
			for p.tok != token.RPAREN {
				a, err := p.parseExpr()
				if err != nil {
					return nil, err
				}
				args = append(args, a)
				if p.tok == token.COMMA {
					p.next()
					continue
				}
				if p.tok != token.RPAREN {
					return nil, fmt.Errorf("expected ')' or ',' in call, got %s %q", p.tok, p.lit)
				}
			}
			p.next()
			x = &ast.CallExpr{Fun: x, Args: args}
		default:
			return x, nil
		}
	}
}

func (p *specParser) parsePrimary() (ast.Expr, error) {
	switch p.tok {
	case token.IDENT:
		id := ast.NewIdent(p.lit)
		p.next()
		return id, nil
	case token.INT, token.STRING, token.CHAR:
		l := &ast.BasicLit{Kind: p.tok, Value: p.lit}
		p.next()
		return l, nil
	case token.LPAREN:
		p.next()
		e, err := p.parseExpr()
		if err != nil {
			return nil, err
		}
		if p.tok != token.RPAREN {
			return nil, fmt.Errorf("expected ')', got %s %q", p.tok, p.lit)
		}
		p.next()
		return &ast.ParenExpr{X: e}, nil
	}
	return nil, fmt.Errorf("unexpected token %s %q", p.tok, p.lit)
}

// type := '*' type | '[' ']' type | 'map' '[' type ']' type | ident ['.' ident]
func (p *specParser) parseType() (ast.Expr, error) {
	switch p.tok {
	case token.MUL:
		p.next()
		t, err := p.parseType()
		if err != nil {
			return nil, err
		}
		return &ast.StarExpr{X: t}, nil
	case token.LBRACK:
		p.next()
		if p.tok != token.RBRACK {
			return nil, fmt.Errorf("only slice types supported in specs")
		}
		p.next()
		t, err := p.parseType()
		if err != nil {
			return nil, err
		}
		return &ast.ArrayType{Elt: t}, nil
	case token.MAP:
		p.next()
		if p.tok != token.LBRACK {
			return nil, fmt.Errorf("map type: expected [")
		}
		p.next()
		k, err := p.parseType()
		if err != nil {
			return nil, err
		}
		if p.tok != token.RBRACK {
			return nil, fmt.Errorf("map type: expected ]")
		}
		p.next()
		v, err := p.parseType()
		if err != nil {
			return nil, err
		}
		return &ast.MapType{Key: k, Value: v}, nil
	case token.IDENT:
		var t ast.Expr = ast.NewIdent(p.lit)
		p.next()
		if p.tok == token.PERIOD {
			p.next()
			if p.tok != token.IDENT {
				return nil, fmt.Errorf("type: expected name after '.'")
			}
			t = &ast.SelectorExpr{X: t, Sel: ast.NewIdent(p.lit)}
			p.next()
		}
		return t, nil
	}
	return nil, fmt.Errorf("type expected, got %s %q", p.tok, p.lit)
}
