#!/usr/bin/env python3
"""Release-side families (memory / streams / conns) and whole-stat release for the resource manager contracts."""
import sys

def rel(fields, who):
    return ' && '.join(f"{who}.{f} == max(0, old({who}.{f}) - {d})" for f, d in fields)
def same(fields, who):
    return ' && '.join(f"{who}.{f} == old({who}.{f})" for f, _ in fields)

def gen(fields, edges, top, pre):
    mods = ', '.join('resources.' + f for f, _ in fields)
    ej = "s.edges[j].rc"
    r_unch = same(fields, "r")
    return f'''
//@ func (s *resourceScope) {edges}
//@ prop C03
//@ requires s.owner == nil && {pre} && allNonneg() && edgesOK(s)
//@ loop 0 invariant 0 <= idx0 && idx0 <= len(s.edges)
//@ loop 0 invariant forall j int :: 0 <= j && j < idx0 ==> (!s.edges[j].done ==> {rel(fields, ej)}) && (s.edges[j].done ==> {same(fields, ej)})
//@ loop 0 invariant forall r *resources :: ({r_unch}) || (exists j int :: 0 <= j && j < idx0 && r == &s.edges[j].rc)
//@ loop 0 invariant allNonneg()
//@ ensures forall j int :: 0 <= j && j < len(s.edges) ==> (!s.edges[j].done ==> {rel(fields, ej)}) && (s.edges[j].done ==> {same(fields, ej)})
//@ ensures forall r *resources :: ({r_unch}) || (exists j int :: 0 <= j && j < len(s.edges) && r == &s.edges[j].rc)
//@ ensures allNonneg()
//@ modifies {mods}

//@ func (s *resourceScope) {top}
//@ prop C03
//@ requires s.owner == nil && {pre} && allNonneg() && edgesOK(s)
//@ ensures !s.done ==> {rel(fields, "s.rc")} &&
//@         (forall j int :: 0 <= j && j < len(s.edges) ==> (!s.edges[j].done ==> {rel(fields, ej)}) && (s.edges[j].done ==> {same(fields, ej)}))
//@ ensures !s.done ==> forall r *resources :: ({r_unch}) || r == &s.rc || (exists j int :: 0 <= j && j < len(s.edges) && r == &s.edges[j].rc)
//@ ensures s.done ==> forall r *resources :: {r_unch}
//@ ensures allNonneg()
//@ modifies {mods}
'''

dirIn = "ite(dir == network.DirInbound, 1, 0)"
dirOut = "ite(dir == network.DirInbound, 0, 1)"
out = gen([('memory', 'size')], 'releaseMemoryForEdges', 'ReleaseMemory', 'size >= 0')
out += gen([('nstreamsIn', dirIn), ('nstreamsOut', dirOut)], 'removeStreamForEdges', 'RemoveStream', 'true')
out += gen([('nconnsIn', dirIn), ('nconnsOut', dirOut), ('nfd', 'ite(usefd, 1, 0)')], 'removeConnForEdges', 'RemoveConn', 'true')

six = [('memory', 'Memory'), ('nstreamsIn', 'NumStreamsInbound'), ('nstreamsOut', 'NumStreamsOutbound'),
       ('nconnsIn', 'NumConnsInbound'), ('nconnsOut', 'NumConnsOutbound'), ('nfd', 'NumFD')]
def relst(who, st):
    return ' && '.join(f"{who}.{f} == max(0, old({who}.{f}) - {st}.{g})" for f, g in six)
def relold(who, src):
    return ' && '.join(f"{who}.{f} == max(0, old({who}.{f}) - old({src}.{f}))" for f, _ in six)
def same6(who):
    return ' && '.join(f"{who}.{f} == old({who}.{f})" for f, _ in six)
def zero6(who):
    return ' && '.join(f"{who}.{f} == 0" for f, _ in six)
mods6 = ', '.join('resources.' + f for f, _ in six)
out += f'''
//@ func (s *resourceScope) ReleaseResources
//@ prop C03
//@ requires s.owner == nil && statNonneg(st) && allNonneg() && edgesOK(s)
//@ loop 0 invariant 0 <= idx0 && idx0 <= len(s.edges)
//@ loop 0 invariant forall j int :: 0 <= j && j < idx0 ==> (!s.edges[j].done ==> {relst("s.edges[j].rc", "st")}) && (s.edges[j].done ==> {same6("s.edges[j].rc")})
//@ loop 0 invariant forall r *resources :: ({same6("r")}) || r == &s.rc || (exists j int :: 0 <= j && j < idx0 && r == &s.edges[j].rc)
//@ loop 0 invariant {relst("s.rc", "st")}
//@ loop 0 invariant allNonneg()
//@ ensures !s.done ==> {relst("s.rc", "st")}
//@ ensures !s.done ==> forall j int :: 0 <= j && j < len(s.edges) ==> (!s.edges[j].done ==> {relst("s.edges[j].rc", "st")}) && (s.edges[j].done ==> {same6("s.edges[j].rc")})
//@ ensures s.done ==> forall r *resources :: {same6("r")}
//@ ensures allNonneg()
//@ modifies {mods6}

//@ func (s *resourceScope) doneUnlocked
//@ prop C03
//@ requires s.owner == nil && allNonneg() && edgesOK(s)
//@ loop 0 invariant 0 <= idx0 && idx0 <= len(s.edges) && !s.done
//@ loop 0 invariant stat.Memory == old(s.rc.memory) && stat.NumStreamsInbound == old(s.rc.nstreamsIn) && stat.NumStreamsOutbound == old(s.rc.nstreamsOut) &&
//@         stat.NumConnsInbound == old(s.rc.nconnsIn) && stat.NumConnsOutbound == old(s.rc.nconnsOut) && stat.NumFD == old(s.rc.nfd)
//@ loop 0 invariant forall j int :: 0 <= j && j < idx0 ==> s.edges[j].refCnt == old(s.edges[j].refCnt) - 1 &&
//@         (!s.edges[j].done ==> {relold("s.edges[j].rc", "s.rc")}) && (s.edges[j].done ==> {same6("s.edges[j].rc")})
//@ loop 0 invariant forall j int :: idx0 <= j && j < len(s.edges) ==> s.edges[j].refCnt == old(s.edges[j].refCnt)
//@ loop 0 invariant forall r *resources :: ({same6("r")}) || (exists j int :: 0 <= j && j < idx0 && r == &s.edges[j].rc)
//@ loop 0 invariant allNonneg()
//@ ensures old(s.done) ==> s.done && (forall r *resources :: {same6("r")}) && (forall x *resourceScope :: x.refCnt == old(x.refCnt))
//@ ensures !old(s.done) ==> s.done && {zero6("s.rc")}
//@ ensures !old(s.done) ==> forall j int :: 0 <= j && j < len(s.edges) ==> s.edges[j].refCnt == old(s.edges[j].refCnt) - 1 &&
//@         (!s.edges[j].done ==> {relold("s.edges[j].rc", "s.rc")}) && (s.edges[j].done ==> {same6("s.edges[j].rc")})
//@ ensures forall r *resources :: ({same6("r")}) || r == &s.rc || (exists j int :: 0 <= j && j < len(s.edges) && r == &s.edges[j].rc)
//@ ensures allNonneg()
//@ modifies {mods6}, resourceScope.refCnt, s.done
'''
sys.stdout.write(out)
