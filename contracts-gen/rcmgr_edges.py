#!/usr/bin/env python3
"""Generates the three structurally identical families of edge contracts (memory / streams / conns) for
/repo/p2p/host/resource-manager/verif_contracts.go.  The generated text is committed in /repo; this script only
documents where it came from and is re-run by hand when the template changes."""
import sys

def inv_fields(fields, who, sign='+'):
    return ' && '.join(f"{who}.{f} == old({who}.{f}) {sign} {d}" for f, d in fields)

def unch_r(fields):
    return ' && '.join(f"r.{f} == old(r.{f})" for f, _ in fields)

def gen(fields, reserve, top, pre):
    mods = ', '.join('resources.' + f for f, _ in fields)
    ej = "s.edges[j].rc"
    return f'''
//@ func (s *resourceScope) {reserve}
//@ prop C03
//@ requires s.owner == nil && {pre} && allNonneg() && edgesOK(s)
//@ loop 0 invariant 0 <= reserved && reserved <= len(s.edges) && idx0 == reserved && err == nil
//@ loop 0 invariant forall j int :: 0 <= j && j < reserved ==> {inv_fields(fields, ej)} && !s.edges[j].done
//@ loop 0 invariant forall r *resources :: ({unch_r(fields)}) || (exists j int :: 0 <= j && j < reserved && r == &s.edges[j].rc)
//@ loop 0 invariant allNonneg()
//@ loop 1 invariant 0 <= idx1 && idx1 <= reserved && reserved <= len(s.edges) && err != nil
//@ loop 1 invariant forall j int :: idx1 <= j && j < reserved ==> {inv_fields(fields, ej)} && !s.edges[j].done
//@ loop 1 invariant forall r *resources :: ({unch_r(fields)}) || (exists j int :: idx1 <= j && j < reserved && r == &s.edges[j].rc)
//@ loop 1 invariant allNonneg()
//@ loop 1 invariant (forall j int :: 0 <= j && j < len(s.edges) ==> !s.edges[j].done) ==> wraps(err, network.ErrResourceLimitExceeded)
//@ ensures result == nil ==> forall j int :: 0 <= j && j < len(s.edges) ==> {inv_fields(fields, ej)} && !s.edges[j].done
//@ ensures result == nil ==> forall r *resources :: ({unch_r(fields)}) || (exists j int :: 0 <= j && j < len(s.edges) && r == &s.edges[j].rc)
//@ ensures result != nil ==> forall r *resources :: {unch_r(fields)}
//@ ensures result != nil && (forall j int :: 0 <= j && j < len(s.edges) ==> !s.edges[j].done) ==> wraps(result, network.ErrResourceLimitExceeded)
//@ ensures allNonneg()
//@ modifies {mods}

//@ func (s *resourceScope) {top}
//@ prop C03
//@ requires s.owner == nil && {pre} && allNonneg() && edgesOK(s)
//@ ensures result == nil ==> !s.done && {inv_fields(fields, "s.rc")} &&
//@         (forall j int :: 0 <= j && j < len(s.edges) ==> {inv_fields(fields, ej)})
//@ ensures result == nil ==> forall r *resources :: ({unch_r(fields)}) || r == &s.rc || (exists j int :: 0 <= j && j < len(s.edges) && r == &s.edges[j].rc)
//@ ensures result != nil ==> forall r *resources :: {unch_r(fields)}
//@ ensures result != nil && !s.done && (forall j int :: 0 <= j && j < len(s.edges) ==> !s.edges[j].done) ==> wraps(result, network.ErrResourceLimitExceeded)
//@ ensures allNonneg()
//@ modifies {mods}
'''

dirIn = "ite(dir == network.DirInbound, 1, 0)"
dirOut = "ite(dir == network.DirInbound, 0, 1)"
out = gen([('memory', 'size')], 'reserveMemoryForEdges', 'ReserveMemory', 'size >= 0')
out += gen([('nstreamsIn', dirIn), ('nstreamsOut', dirOut)], 'addStreamForEdges', 'AddStream', 'true')
out += gen([('nconnsIn', dirIn), ('nconnsOut', dirOut), ('nfd', 'ite(usefd, 1, 0)')], 'addConnForEdges', 'AddConn', 'true')
sys.stdout.write(out)
