#!/usr/bin/env python3
"""Regenerates /verif/MANIFEST.json from /verif/claims.json (claimed properties with level text) and properties.jsonl."""
import json, subprocess
props = [json.loads(l) for l in open('/verif/properties.jsonl')]
claims = json.load(open('/verif/claims.json'))
import glob
for f in sorted(glob.glob('/verif/claims.d/*.json')):
    c = json.load(open(f))
    claims["claimed"].update(c.get("claimed", {}))
    claims["not_applicable"].update(c.get("not_applicable", {}))
hooks = subprocess.run("git -C /repo log --format=%H --grep='^verif:' ", shell=True, capture_output=True, text=True).stdout.split()
checks = []
for p in props:
    c = claims["claimed"].get(p['id'])
    if not c: continue
    checks.append({
        "property_id": p['id'],
        "quick_cmd": f"/verif/bin/check {p['id']} quick",
        "thorough_cmd": f"/verif/bin/check {p['id']} thorough",
        "evidence_file": f"/verif/evidence/{p['id']}.json",
        "replay_cmd_template": "/verif/bin/check --replay {path}",
        "engine": "vcgen",
        "level_claimed": {"category": "proof", "text": c["text"], "design_ref": "DESIGN.md section 5." + str(int(p['id'][1:]))},
        "level_note": c["note"],
        "technique": "contract-based deductive verification: contracts (requires/ensures/modifies/loop invariants/lemmas) on the real functions in /repo, verification conditions generated from go/ast+go/types by /verif/tool (vcgen), discharged by z3 4.8.12 / z3 5.1.0 / cvc5 1.0.3"})
na = [{"property_id": p['id'], "reason": claims["not_applicable"].get(p['id'], "not yet under contract at this commit (work in progress)")} for p in props if p['id'] not in claims["claimed"]]
m = {"version": 1,
     "setup_cmd": "make -C /verif build",
     "hooks": {"guard": "verif",
               "enable": "contracts are comment-only files <pkg>/verif_contracts.go carrying //go:build verif; vcgen reads them as text, nothing is compiled into go-libp2p; replays inject an in-package test with go test -overlay",
               "baseline_off_cmd": "cd /repo && go test -mod=mod -json -vet=off -count=1 -timeout 25m ./... ; cd /repo/test-plans && go test -mod=mod -json -vet=off -count=1 -timeout 25m ./...",
               "source_commits": hooks, "add_only": True},
     "engines": [{"name": "vcgen", "path": "/verif/tool", "serves_properties": sorted(claims["claimed"].keys()),
                  "kind_free_text": "self-written verification-condition generator for Go: forward symbolic execution of the typed AST with contracts, loop invariants, lemmas, frame conditions, ghost state; quantifier pre-instantiation; SMT portfolio"}],
     "checks": checks, "not_applicable": na,
     "notes": claims.get("notes", "")}
json.dump(m, open('/verif/MANIFEST.json', 'w'), indent=1)
print(len(checks), "checks,", len(na), "not claimed")
