SHELL := /bin/sh
.PHONY: build selftest
build:
	. /verif/env.sh && cd /verif/tool && go build -o /verif/bin/vcgen .
